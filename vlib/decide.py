"""Decision procedure shared by every property (DESIGN §2.1 step 4) and evidence writing."""
import json, os, re, sys, time
from .common import *
from .engine import *


def match_known(failure, findings, prop):
    for kf in findings.get("findings", []):
        if kf["property"] != prop: continue
        m = kf.get("match", {})
        if "key" in m and not re.search(m["key"], failure.key): continue
        if "shape" in m and not re.search(m["shape"], failure.scenario.shape): continue
        if "profile" in m and failure.profile != m["profile"]: continue
        if "line" in m:
            try:
                line = failure.scenario.lines[int(failure.step)]
            except Exception:
                line = "\n".join(failure.scenario.lines)
            if not re.search(m["line"], line): continue
        if "scenario" in m and not re.search(m["scenario"], "\n".join(failure.scenario.lines)): continue
        return kf
    return None


def failure_replay(prop, f, kind="monitor"):
    return write_replay(prop, {
        "kind": kind, "shape": f.scenario.shape, "profile": f.profile, "scenario": f.scenario.lines,
        "failing_step": f.step, "what": f.what, "key": f.key, "observations": f.obs})


def finish(prop, tier, seed, t0, level, proof, suites, monitors, widen=None, assumptions=None, extra_cov=None,
           level_text=""):
    """suites: list of SuiteResult.  Prints KNOWN-FINDING / VIOLATION lines, writes evidence, returns exit code."""
    findings = load_findings()
    failures = [f for s in suites for f in s.failures]
    tie = [t for s in suites for t in s.tie_mismatch]
    stdm = [t for s in suites for t in s.std_mismatch]
    unknown, known = [], {}
    for f in failures:
        kf = match_known(f, findings, prop)
        if kf: known.setdefault(kf["id"], (kf, f))
        else: unknown.append(f)
    for kid, (kf, f) in sorted(known.items()):
        print(f"KNOWN-FINDING: property={prop} {kf['what']} [{kid}; e.g. shape {f.scenario.shape}, {f.profile}, step {f.step}: {f.what[:160]}]")
    violations = 0
    rc = 0
    replay = None
    if unknown:
        # group by key, report the first of each group minimised
        by_key = {}
        for f in unknown: by_key.setdefault(f.key, f)
        printed = set()
        for key, f in list(by_key.items())[:5]:
            fm = minimise(prop, f, monitors)
            replay = failure_replay(prop, fm)
            if replay in printed: continue
            printed.add(replay)
            print(f"VIOLATION property={prop} replay={replay}")
            log(f"  {fm.key} on shape {fm.scenario.shape} ({fm.profile}): {fm.what[:300]}")
            log(f"  scenario: {' ; '.join(fm.scenario.lines)}")
            violations += 1
        rc = 1
    proof_broken = proof is not None and not proof["ok"]
    if not unknown and (proof_broken or tie):
        # a proof obligation or the model/implementation correspondence no longer checks:
        # widen the failing-input search before reporting
        found = None
        if widen is not None:
            log("proof obligation or correspondence broken; widening the failing-input search")
            for s in widen():
                suites.append(s)
                for f in s.failures:
                    if not match_known(f, findings, prop):
                        found = f; break
                if found: break
        if found:
            fm = minimise(prop, found, monitors)
            replay = failure_replay(prop, fm)
            print(f"VIOLATION property={prop} replay={replay}")
            log(f"  {fm.key} on shape {fm.scenario.shape} ({fm.profile}): {fm.what[:300]}")
        else:
            payload = {"kind": "no-failing-input-found"}
            if proof_broken:
                payload["broken_proof_obligations"] = proof["failures"][:10]
                payload["modules"] = proof["modules"]
            if tie:
                sc, prof, a, b = tie[0]
                payload["broken_correspondence"] = {"shape": sc.shape, "profile": prof, "scenario": sc.lines,
                                                    "implementation": a, "model": b, "count": len(tie)}
            replay = write_replay(prop, payload)
            print(f"VIOLATION property={prop} replay={replay} no-failing-input-found")
            if tie:
                log(f"  model/implementation disagree on {len(tie)} scenario(s); first: shape {tie[0][0].shape} ({tie[0][1]})")
                log(f"    impl : {tie[0][2][:300]}")
                log(f"    model: {tie[0][3][:300]}")
                log(f"    scenario: {' ; '.join(tie[0][0].lines[:20])}")
            if proof_broken:
                log(f"  broken proof obligations: {json.dumps(proof['failures'][:3])[:600]}")
        violations += 1
        rc = 1
    if stdm and rc == 0:
        sc, a, b = stdm[0]
        print(f"MODEL-ERROR std-model: the Lean model of std disagrees with the real std on {len(stdm)} scenario(s)")
        log(f"    std  : {a[:300]}")
        log(f"    spec : {b[:300]}")
        log(f"    scenario: shape {sc.shape}: {' ; '.join(sc.lines[:20])}")
        rc = 3
    # ---- evidence
    cov = {}
    ev_total = sum(s.evaluations for s in suites)
    distinct = set()
    for s in suites: distinct |= s.distinct
    ops, status, shapes, lens = collections.Counter(), collections.Counter(), collections.Counter(), collections.Counter()
    for s in suites:
        ops.update(s.hist_ops); status.update(s.hist_status); shapes.update(s.hist_shapes); lens.update(s.hist_len)
    samples = [x for s in suites for x in s.samples][:4]
    if proof is not None:
        cov.update({
            "obligations": proof["obligations"], "discharged": proof["discharged"],
            "checker_cmd": "cd /verif/lean && lake build " + " ".join(proof["modules"]) + "  # then `#print axioms` of every property theorem (work/audit/%s.lean)" % prop,
            "trusted_base": [
                "Lean 4.33 kernel; axioms used: " + ", ".join(sorted({a for v in proof["axioms"].values() for a in v}) or ["none"]),
                "std/permutation model (Soa/Ops.lean etc.): validated against the real std by the S-line comparison of this run",
                "hand-written model of the generated methods: tied to /repo by the I-line comparison of this run",
                "Rust harness + python comparison"],
            "theorems": proof["theorems"],
            "proof_wall_s": proof.get("wall_s"),
        })
        if level == "proof" and proof["obligations"] == 0:
            cov["obligations"] = 0
    cov.update({
        "evaluations": ev_total,
        "distinct_nontrivial": len(distinct),
        "rule": "one evaluation = one scenario (operation history) executed on the real generated code in one build profile; "
                "distinct = distinct (shape, op list); non-trivial = at some step a container is non-empty",
        "samples": samples or [{"note": "no scenario executed"}],
        "traces_validated_against_impl": sum(s.traces_validated for s in suites),
        "steps": sum(s.steps for s in suites),
        "ops_histogram": dict(ops.most_common()),
        "status_histogram": dict(sorted(status.items())),
        "shapes_histogram": dict(shapes),
        "max_len_histogram": {str(k): v for k, v in sorted(lens.items())},
        "model_disagreements": len(tie),
        "std_model_disagreements": len(stdm),
        "known_findings_reproduced": sorted(known.keys()),
    })
    if extra_cov: cov.update(extra_cov)
    evd = {"property_id": prop, "tier": tier, "seed": seed, "level": level, "coverage": cov,
           "assumptions": assumptions or [], "wall_s": round(time.time() - t0, 1), "violations": violations}
    write_evidence(prop, evd)
    log(f"{prop}: rc={rc} evaluations={ev_total} distinct={len(distinct)} proof={'-' if proof is None else str(proof['discharged'])+'/'+str(proof['obligations'])} "
        f"tie_mismatch={len(tie)} std_mismatch={len(stdm)} known={sorted(known.keys())} wall={evd['wall_s']}s")
    return rc
