"""Compile-time probes: small single-file programs compiled with rustc against the soa_derive rlib built from
/repo's current working tree (must-compile / must-not-compile / compile-and-run)."""
import concurrent.futures, json, os, re, subprocess
from .common import *

PROBE_DIR = os.path.join(WORK, "probes")
_env = None


def probe_env():
    """build soa_derive (through the harness crate, which depends on /repo by path) and find the artifacts"""
    global _env
    if _env is not None:
        return _env
    with Lock():
        # only the libraries: the probes must get a verdict even when the harness binary itself no longer compiles against /repo
        p = subprocess.run(["cargo", "build", "--offline", "--message-format=json", "-q", "-p", "soa_derive", "-p", "serde", "-p", "serde_json"],
                           cwd=HARNESS, capture_output=True, text=True, env=ENV)
    if p.returncode != 0:
        raise BuildError("cargo build for probes failed:\n" + p.stderr[-3000:])
    arts = {}
    for l in p.stdout.splitlines():
        try:
            m = json.loads(l)
        except Exception:
            continue
        if m.get("reason") == "compiler-artifact":
            name = m["target"]["name"]
            for f in m.get("filenames", []):
                if f.endswith(".rlib") or f.endswith(".so"):
                    arts[name] = f
    deps = os.path.join(HARNESS, "target", "debug", "deps")
    if "soa_derive" not in arts:
        raise BuildError("soa_derive artifact not found in cargo output")
    _env = {"deps": deps, "soa_derive": arts["soa_derive"], "serde": arts.get("serde"), "serde_json": arts.get("serde_json")}
    os.makedirs(PROBE_DIR, exist_ok=True)
    return _env


def _rustc(src, out, emit, extra=()):
    e = probe_env()
    cmd = ["rustc", "--edition", "2021", "-L", f"dependency={e['deps']}", "--extern", f"soa_derive={e['soa_derive']}"]
    if e.get("serde"): cmd += ["--extern", f"serde={e['serde']}"]
    if e.get("serde_json"): cmd += ["--extern", f"serde_json={e['serde_json']}"]
    cmd += list(extra)
    if emit == "metadata":
        cmd += ["--emit=metadata", "-o", out + ".rmeta"]
    else:
        cmd += ["-C", "debuginfo=0", "-o", out]
    cmd.append(src)
    p = subprocess.run(cmd, capture_output=True, text=True, env=ENV)
    return p.returncode, p.stderr


def check_compile(name, code, extra=()):
    """type-check only; returns (ok, error codes, stderr)"""
    probe_env()
    src = os.path.join(PROBE_DIR, name + ".rs")
    open(src, "w").write(code)
    rc, err = _rustc(src, os.path.join(PROBE_DIR, name), "metadata", extra)
    codes = sorted(set(re.findall(r"error\[(E\d+)\]", err)))
    return rc == 0, codes, err


def build_and_run(name, code, extra=(), timeout=120):
    probe_env()
    src = os.path.join(PROBE_DIR, name + ".rs")
    open(src, "w").write(code)
    exe = os.path.join(PROBE_DIR, name)
    rc, err = _rustc(src, exe, "link", extra)
    if rc != 0:
        return False, "", err
    p = subprocess.run([exe], capture_output=True, text=True, timeout=timeout)
    return p.returncode == 0, p.stdout, p.stderr


def parallel(fn, items, workers=16):
    with concurrent.futures.ThreadPoolExecutor(max_workers=workers) as ex:
        return list(ex.map(fn, items))


def check_functions(name, prelude, bodies, extra=()):
    """type- and borrow-check many probe bodies at once, each as its own function; returns (per-body list of error codes,
    list of diagnostics that could not be attributed to a body)"""
    probe_env()
    lines = prelude.rstrip("\n").split("\n")
    ranges = []
    for i, b in enumerate(bodies):
        start = len(lines) + 1
        lines.append(f"fn probe_{i}() {{")
        lines += b.rstrip("\n").split("\n")
        lines.append("}")
        ranges.append((start, len(lines)))
    lines.append("fn main() {}")
    src = os.path.join(PROBE_DIR, name + ".rs")
    open(src, "w").write("\n".join(lines) + "\n")
    rc, err = _rustc(src, os.path.join(PROBE_DIR, name), "metadata", list(extra) + ["--error-format=json"])
    per = [[] for _ in bodies]
    stray = []
    for l in err.splitlines():
        try:
            d = json.loads(l)
        except Exception:
            continue
        if d.get("level") != "error": continue
        code = (d.get("code") or {}).get("code") or "error"
        prim = [s for s in d.get("spans", []) if s.get("is_primary")] or d.get("spans", [])
        placed = False
        for s in prim:
            # a span inside a macro expansion points into the prelude; follow the expansion to the call site
            ln = s.get("line_start")
            e = s
            while e.get("expansion") and not any(a <= ln <= b for a, b in ranges):
                e = e["expansion"]["span"]; ln = e.get("line_start")
            for i, (a, b) in enumerate(ranges):
                if a <= ln <= b:
                    per[i].append(code); placed = True; break
            if placed: break
        if not placed and "aborting due to" not in d.get("message", ""):
            stray.append(f"{code}: {d.get('message', '')[:200]}")
    return per, stray
