"""C14: probe programs — compile-time trait truth table of the seven generated types, cloning API presence,
Default/equality/serde behaviour — and the model request lines they are compared with."""
import itertools, random

TRAITS8 = ["Debug", "PartialEq", "Eq", "PartialOrd", "Ord", "Hash", "Clone", "Default"]
TABLE_TRAITS = ["Debug", "PartialEq", "Eq", "PartialOrd", "Ord", "Hash", "Clone", "Default", "Copy"]
PATH = {"Debug": "std::fmt::Debug", "PartialEq": "PartialEq", "Eq": "Eq", "PartialOrd": "PartialOrd", "Ord": "Ord",
        "Hash": "std::hash::Hash", "Clone": "Clone", "Default": "Default", "Copy": "Copy"}
KINDS = ["Vec", "Slice", "SliceMut", "Ref", "RefMut", "Ptr", "PtrMut"]
TYPE = {"Vec": "PVec", "Slice": "PSlice<'static>", "SliceMut": "PSliceMut<'static>", "Ref": "PRef<'static>",
        "RefMut": "PRefMut<'static>", "Ptr": "PPtr", "PtrMut": "PPtrMut"}
SUPER = {"Eq": ["PartialEq"], "PartialOrd": ["PartialEq"], "Ord": ["Eq", "PartialOrd", "PartialEq"]}


def closed(s):
    return all(all(d in s for d in SUPER.get(t, [])) for t in s)


def all_closed_subsets():
    out = []
    for mask in range(256):
        s = [TRAITS8[i] for i in range(8) if mask >> i & 1]
        if closed(s): out.append(s)
    return out


class Case:
    def __init__(self, cid, traits, attrs=(), nested=True, split=False):
        self.cid, self.traits, self.attrs, self.nested, self.split = cid, list(traits), list(attrs), nested, split
        # attrs: [(Kind, trait)] given as soa_attr(Kind, derive(trait)); split: two soa_derive attributes

    def directives_src(self):
        out = []
        if self.split and len(self.traits) >= 2:
            h = len(self.traits) // 2
            out += [f"#[soa_derive({', '.join(self.traits[:h])})]"]
            for k, t in self.attrs: out.append(f"#[soa_attr({k}, derive({t}))]")
            out += [f"#[soa_derive({', '.join(self.traits[h:])})]"]
        else:
            if self.traits: out.append(f"#[soa_derive({', '.join(self.traits)})]")
            for k, t in self.attrs: out.append(f"#[soa_attr({k}, derive({t}))]")
        return out

    def model_line(self):
        parts = []
        if self.split and len(self.traits) >= 2:
            h = len(self.traits) // 2
            parts.append("D:" + ",".join(self.traits[:h]))
            parts += [f"A:{k}:derive:{t}" for k, t in self.attrs]
            parts.append("D:" + ",".join(self.traits[h:]))
        else:
            if self.traits: parts.append("D:" + ",".join(self.traits))
            parts += [f"A:{k}:derive:{t}" for k, t in self.attrs]
        return "derive " + " ".join(parts)

    def desc(self):
        return {"id": self.cid, "attributes": self.directives_src(), "nested": self.nested}

    def program(self):
        dirs = "\n".join(self.directives_src())
        user = sorted(set(self.traits) - {"Default"} | {"Clone", "Debug", "PartialEq"})
        # the element type itself derives what the generated code needs from it (Clone for the cloning API / to_owned,
        # and the requested traits so that a nested field's generated types can be compared, hashed, ...)
        nested_field = "#[nested_soa] pub n: N," if self.nested else ""
        nested_def = f"#[derive(StructOfArray, {', '.join(user)})]\n{dirs}\npub struct N {{ pub x: u8, pub y: i64 }}\n" if self.nested else ""
        nested_val = "n: N { x: (i % 3) as u8, y: -(i as i64) }," if self.nested else ""
        rows = []
        for k in KINDS:
            cells = " + ".join(f'if impls!({TYPE[k]}: {PATH[t]}) {{ "1" }} else {{ "0" }}' for t in TABLE_TRAITS)
            rows.append(f'    let r{k}: String = String::new() + {cells};')
        eq_checks = ""
        if "PartialEq" in self.traits:
            eq_checks = """
    // derived equality of the SoA types agrees with element-wise equality
    let pool: Vec<Vec<P>> = vec![vec![], vec![mk(0)], vec![mk(1)], vec![mk(0), mk(1)], vec![mk(1), mk(0)], vec![mk(0), mk(1), mk(2)], vec![mk(0), mk(1), mk(5)], vec![mk(3), mk(1), mk(2)]];
    for x in &pool { for y in &pool {
        let (mut vx, mut vy): (PVec, PVec) = (x.iter().cloned().collect(), y.iter().cloned().collect());
        let want = x == y;
        if (vx == vy) != want { println!("FAIL eq-vec {:?} {:?}", x, y); }
        if (vx.as_slice() == vy.as_slice()) != want { println!("FAIL eq-slice {:?} {:?}", x, y); }
        if (vx.as_mut_slice() == vy.as_mut_slice()) != want { println!("FAIL eq-slicemut {:?} {:?}", x, y); }
        for i in 0..x.len() { for j in 0..y.len() {
            if (vx.index(i) == vy.index(j)) != (x[i] == y[j]) { println!("FAIL eq-ref {:?} {:?} {} {}", x, y, i, j); }
            if (vx.index_mut(i) == vy.index_mut(j)) != (x[i] == y[j]) { println!("FAIL eq-refmut {:?} {:?} {} {}", x, y, i, j); }
        } }
    } }"""
        clone_checks = ""
        if "Clone" in self.traits:
            clone_checks = """
    // requesting Clone: the vector is Clone and the cloning API exists and behaves like Vec<T>'s
    let src: Vec<P> = vec![mk(0), mk(1), mk(2)];
    let v: PVec = src.iter().cloned().collect();
    let c = v.clone();
    if rows(&c) != src { println!("FAIL clone {:?}", rows(&c)); }
    let t = v.slice(1..3).to_vec();
    if rows(&t) != src[1..3].to_vec() { println!("FAIL to_vec {:?}", rows(&t)); }
    let mut r = v.clone(); r.resize(5, mk(9));
    let mut want = src.clone(); want.resize(5, mk(9));
    if rows(&r) != want { println!("FAIL resize-grow {:?}", rows(&r)); }
    r.resize(1, mk(7)); want.resize(1, mk(7));
    if rows(&r) != want { println!("FAIL resize-shrink {:?}", rows(&r)); }
    let mut e = v.clone();
    soa_derive::SoAAppendVec::extend_from_slice(&mut e, t.as_slice());
    let mut want = src.clone(); want.extend_from_slice(&src[1..3]);
    if rows(&e) != want { println!("FAIL extend_from_slice {:?}", rows(&e)); }"""
        return f"""#![allow(dead_code, unused_mut, unused_imports)]
#[macro_use] extern crate soa_derive;
use soa_derive::StructOfArray;
{nested_def}
#[derive(StructOfArray, {', '.join(user)})]
{dirs}
pub struct P {{ pub a: u32, {nested_field} pub b: i16 }}

macro_rules! impls {{ ($t:ty : $($tr:tt)+) => {{{{
    trait No {{ const V: bool = false; }}
    impl<T: ?Sized> No for T {{}}
    struct W<T: ?Sized>(std::marker::PhantomData<T>);
    #[allow(dead_code)] impl<T: ?Sized + $($tr)+> W<T> {{ const V: bool = true; }}
    <W<$t>>::V
}}}} }}
fn mk(i: usize) -> P {{ P {{ a: 10 + i as u32, {nested_val} b: 3 * i as i16 }} }}
fn rows(v: &PVec) -> Vec<P> {{ v.iter().map(|r| r.to_owned()).collect() }}
fn main() {{
{chr(10).join(rows)}
    println!("T {self.cid} {{}} {{}} {{}} {{}} {{}} {{}} {{}} clone_api={{}}", rVec, rSlice, rSliceMut, rRef, rRefMut, rPtr, rPtrMut,
        if impls!(PSlice<'static>: soa_derive::ToSoAVec<P>) && impls!(PSliceMut<'static>: soa_derive::ToSoAVec<P>) && impls!(PVec: soa_derive::SoAAppendVec<P>) {{ 1 }}
        else if !impls!(PSlice<'static>: soa_derive::ToSoAVec<P>) && !impls!(PSliceMut<'static>: soa_derive::ToSoAVec<P>) && !impls!(PVec: soa_derive::SoAAppendVec<P>) {{ 0 }} else {{ 2 }});
    // vector, slice and mutable slice are Default and empty by default
    let d = PVec::default();
    if d.len() != 0 || !d.is_empty() || d.a.len() != 0 || d.b.len() != 0 {{ println!("FAIL default-vec"); }}
    if PSlice::default().len() != 0 {{ println!("FAIL default-slice"); }}
    if PSliceMut::default().len() != 0 {{ println!("FAIL default-slicemut"); }}
    {eq_checks}
    {clone_checks}
    println!("DONE {self.cid}");
}}
"""


def clone_api_probe(traits):
    """(program, expect_compiles): calling the inherent cloning API compiles iff Clone was requested"""
    dirs = f"#[soa_derive({', '.join(traits)})]" if traits else ""
    serde = any(t in ("Serialize", "Deserialize") for t in traits)
    user = "Clone, Debug, PartialEq" + (", serde::Serialize, serde::Deserialize" if serde else "")
    prog = f"""#![allow(dead_code)]
#[macro_use] extern crate soa_derive;
{"use serde::{Serialize, Deserialize};" if serde else ""}
#[derive(StructOfArray, {user})]
{dirs}
pub struct P {{ pub a: u32, pub b: i16 }}
fn main() {{
    let mut v = PVec::new();
    v.resize(2, P {{ a: 1, b: 2 }});
    let w = v.as_slice().to_vec();
    let z = v.as_mut_slice().to_vec();
    assert_eq!(w.len() + z.len(), 4);
}}
"""
    return prog, ("Clone" in traits)


def serde_program(nested):
    nested_def = "#[derive(StructOfArray, Clone, Debug, PartialEq, Serialize, Deserialize)]\n#[soa_derive(Debug, PartialEq, Serialize, Deserialize)]\npub struct N { pub x: u8, pub y: String }\n" if nested else ""
    nf = "#[nested_soa] pub n: N," if nested else ""
    nv = "n: N { x: i as u8, y: format!(\"s{}\", i) }," if nested else ""
    return f"""#![allow(dead_code)]
#[macro_use] extern crate soa_derive;
use soa_derive::StructOfArray;
use serde::{{Serialize, Deserialize}};
{nested_def}
#[derive(StructOfArray, Clone, Debug, PartialEq, Serialize, Deserialize)]
#[soa_derive(Debug, PartialEq, Serialize, Deserialize)]
pub struct P {{ pub a: u32, {nf} pub b: Option<i16>, pub c: Vec<u8> }}
fn mk(i: usize) -> P {{ P {{ a: 10 + i as u32, {nv} b: if i % 2 == 0 {{ None }} else {{ Some(i as i16) }}, c: vec![i as u8; i] }} }}
fn main() {{
    for len in 0..6usize {{
        let v: PVec = (0..len).map(mk).collect();
        let json = serde_json::to_string(&v).expect("serialize");
        let back: PVec = serde_json::from_str(&json).expect("deserialize");
        if back != v {{ println!("FAIL serde-roundtrip len={{}} {{}}", len, json); }}
        let rows: Vec<P> = back.iter().map(|r| r.to_owned()).collect();
        let want: Vec<P> = (0..len).map(mk).collect();
        if rows != want {{ println!("FAIL serde-rows len={{}}", len); }}
        // the serialized form is field-wise: one array per field
        let val: serde_json::Value = serde_json::from_str(&json).unwrap();
        if val["a"].as_array().map(|a| a.len()) != Some(len) || val["c"].as_array().map(|a| a.len()) != Some(len) {{ println!("FAIL serde-shape len={{}} {{}}", len, json); }}
    }}
    println!("DONE serde");
}}
"""


def serde_attr_program():
    """helper attributes of a requested derive given through soa_attr: they must follow the derive they belong to on the
    generated type, and several attributes of the same name on one kind must all arrive"""
    return """#![allow(dead_code)]
#[macro_use] extern crate soa_derive;
use soa_derive::StructOfArray;
use serde::{Serialize, Deserialize};
#[derive(StructOfArray, Clone, Debug, PartialEq, Serialize, Deserialize)]
#[soa_derive(Debug, PartialEq, Serialize, Deserialize)]
#[soa_attr(Vec, serde(rename_all = "UPPERCASE"))]
#[soa_attr(Vec, serde(deny_unknown_fields))]
#[soa_attr(Vec, cfg_attr(all(), derive(Clone)))]
#[soa_attr(Vec, cfg_attr(all(), derive(Eq)))]
pub struct P { pub a: u32, pub b: u8 }
// a derive addressed to one view / reference type through soa_attr lands on that type (Serialize is vector-only only as a
// soa_derive request; `&[T]`, `&mut [T]`, `&T`, `&mut T` are all Serialize)
#[derive(StructOfArray, Clone, Debug, PartialEq, Serialize)]
#[soa_derive(Debug, PartialEq)]
#[soa_attr(Slice, derive(Serialize))]
#[soa_attr(SliceMut, derive(Serialize))]
#[soa_attr(Ref, derive(Serialize))]
#[soa_attr(RefMut, derive(Serialize))]
pub struct Q { pub a: u32, pub b: u8 }
fn ser<T: Serialize>(t: &T) -> String { serde_json::to_string(t).expect("serialize") }
fn needs<T: Clone + Eq>() {}
fn main() {
    let mut q = QVec::new();
    q.push(Q { a: 1, b: 2 }); q.push(Q { a: 3, b: 4 });
    if ser(&q.as_slice()) != r#"{"a":[1,3],"b":[2,4]}"# { println!("FAIL serde-view Slice: {}", ser(&q.as_slice())); }
    if ser(&q.as_mut_slice()) != r#"{"a":[1,3],"b":[2,4]}"# { println!("FAIL serde-view SliceMut: {}", ser(&q.as_mut_slice())); }
    if ser(&q.index(1)) != r#"{"a":3,"b":4}"# { println!("FAIL serde-view Ref: {}", ser(&q.index(1))); }
    if ser(&q.index_mut(0)) != r#"{"a":1,"b":2}"# { println!("FAIL serde-view RefMut: {}", ser(&q.index_mut(0))); }
    needs::<PVec>();
    let mut v = PVec::new();
    v.push(P { a: 1, b: 2 });
    let json = serde_json::to_string(&v).expect("serialize");
    if !(json.contains(r#""A""#) && json.contains(r#""B""#)) { println!("FAIL serde-attr-first rename_all did not arrive: {}", json); }
    if serde_json::from_str::<PVec>(r#"{"A":[1],"B":[2],"C":[3]}"#).is_ok() { println!("FAIL serde-attr-second deny_unknown_fields did not arrive"); }
    if serde_json::from_str::<PVec>(r#"{"A":[1],"B":[2]}"#).ok() != Some(v) { println!("FAIL serde-attr-roundtrip"); }
    println!("DONE serde-attr");
}
"""


def ref_ord_program():
    """an order given to the reference types only (soa_attr(Ref, derive(.. Ord))) is all that the natural-order `sort()` of a
    mutable slice asks for, also through a #[nested_soa] field: it compares elements through their `Ref`s"""
    return """#![allow(dead_code)]
use soa_derive::StructOfArray;
#[derive(StructOfArray, Clone, Debug, PartialEq, Eq, PartialOrd, Ord)]
#[soa_attr(Ref, derive(Debug, PartialEq, Eq, PartialOrd, Ord))]
pub struct In { pub k: u8, pub l: u8 }
#[derive(StructOfArray, Clone, Debug, PartialEq, Eq, PartialOrd, Ord)]
#[soa_attr(Ref, derive(Debug, PartialEq, Eq, PartialOrd, Ord))]
pub struct Out { pub a: u8, #[nested_soa] pub n: In, pub z: u8 }
#[derive(StructOfArray, Clone, Debug, PartialEq, Eq, PartialOrd, Ord)]
#[soa_attr(Ref, derive(Debug, PartialEq, Eq, PartialOrd, Ord))]
pub struct Flat { pub a: u8, pub z: u8 }
fn main() {
    let data: Vec<Out> = (0u8..24).map(|i| Out { a: (i * 7) % 3, n: In { k: (i * 5) % 2, l: (i * 11) % 4 }, z: 23 - i }).collect();
    let mut v = OutVec::new();
    for e in &data { v.push(e.clone()); }
    v.as_mut_slice().sort();
    let mut w = data.clone(); w.sort();
    let got: Vec<Out> = v.iter().map(|r| Out { a: *r.a, n: In { k: *r.n.k, l: *r.n.l }, z: *r.z }).collect();
    if got != w { println!("FAIL ref-ord nested sort differs from Vec<T>::sort"); }
    let mut ns = v.n.as_mut_slice(); ns.sort();
    let mut f = FlatVec::new(); f.push(Flat { a: 2, z: 1 }); f.push(Flat { a: 1, z: 9 });
    f.as_mut_slice().sort();
    if *f.index(0).a != 1 { println!("FAIL ref-ord flat sort"); }
    if !(f.index(0) < f.index(1)) { println!("FAIL ref-ord Ref comparison"); }
    println!("DONE ref-ord");
}
"""


def noclone_program():
    """requesting Clone asks `Clone` of the FIELD types, not of the struct: the vector is Clone and the whole cloning API is
    there for a struct that is not Clone itself"""
    return """#![allow(dead_code)]
use soa_derive::StructOfArray;
#[derive(StructOfArray, Debug, PartialEq)]
#[soa_derive(Debug, Clone, PartialEq)]
pub struct Ticket { pub id: u32, pub k: String, pub who: String }
fn mk(i: u32) -> Ticket { Ticket { id: i, k: format!("k{}", i), who: format!("w{}", i) } }
fn main() {
    let mut v = TicketVec::new();
    for i in 0..3 { v.push(mk(i)); }
    let c = v.clone();
    if c != v || c.len() != 3 { println!("FAIL noclone clone"); }
    let t = v.slice(1..3).to_vec();
    if t.len() != 2 || *t.index(0).id != 1 { println!("FAIL noclone to_vec"); }
    let t2 = soa_derive::ToSoAVec::to_vec(&v.as_mut_slice());
    if t2 != v { println!("FAIL noclone to_vec of the mutable slice"); }
    let mut r = v.clone(); r.resize(5, mk(9));
    if r.len() != 5 || *r.index(4).id != 9 || r.index(3).k != "k9" { println!("FAIL noclone resize"); }
    soa_derive::SoAAppendVec::extend_from_slice(&mut r, t.as_slice());
    if r.len() != 7 || r.index(6).who != "w2" { println!("FAIL noclone extend_from_slice"); }
    r.extend(v.iter());
    if r.len() != 10 { println!("FAIL noclone extend from references"); }
    println!("DONE noclone");
}
"""


def cases(tier, seed):
    rng = random.Random(seed)
    subsets = all_closed_subsets()
    out = []
    if tier == "quick":
        core = [[], ["Debug"], ["Clone"], ["Default"], ["Debug", "PartialEq"], ["Debug", "PartialEq", "Clone"],
                ["Debug", "PartialEq", "Eq", "PartialOrd", "Ord", "Hash", "Clone", "Default"], ["PartialEq", "PartialOrd"], ["Hash"],
                ["PartialEq", "Eq", "Hash"]]
        chosen = core + rng.sample([s for s in subsets if s not in core], 8)
    else:
        chosen = subsets
    for s in chosen:
        out.append(Case(len(out), s, nested=(len(out) % 2 == 0)))
    # permuted order / split over two attributes (order is irrelevant to rustc as long as impls exist)
    for s in ([["Clone", "Debug", "PartialEq"], ["Hash", "Eq", "PartialEq", "Debug"]] if tier == "quick" else [list(reversed(s)) for s in subsets if len(s) >= 2][::3]):
        out.append(Case(len(out), s, nested=False, split=True))
    # the order in which the traits are listed in ONE attribute is irrelevant too: a vector-only trait (Clone) first, last, in the middle
    for s in ([["Clone", "Debug", "PartialEq"], ["Clone", "Debug", "PartialEq", "Eq", "PartialOrd", "Ord", "Hash"], ["Debug", "Clone", "PartialEq"], ["Hash", "Eq", "Clone", "PartialEq", "Debug"]]
              if tier == "quick" else [[x] + [t for t in s if t != x] for s in subsets if len(s) >= 3 for x in s[-2:]][::2]):
        out.append(Case(len(out), s, nested=(len(out) % 2 == 0)))
    # soa_attr: a derive on exactly one kind
    for i, k in enumerate(KINDS):
        out.append(Case(len(out), [], [(k, "Debug")], nested=(i % 2 == 1)))
        if tier != "quick" or i % 2 == 0:
            out.append(Case(len(out), ["Debug", "Clone"], [(k, "PartialEq")], nested=False))
    if tier != "quick":
        for k1, k2 in itertools.combinations(KINDS, 2):
            out.append(Case(len(out), ["PartialEq"], [(k1, "Debug"), (k2, "Debug")], nested=False, split=True))
    return out
