"""C13: struct declarations from a shape grammar (field count, type pool, name pool incl. every generator-local identifier,
visibility, attribute sets, nesting, Drop), the rejection corpus, and an API-completeness program."""
import random, re, os
from .common import *

LINT_HEADER = """#![deny(absolute_paths_not_starting_with_crate, anonymous_parameters, bare_trait_objects)]
#![deny(missing_copy_implementations, missing_debug_implementations)]
#![deny(missing_docs, trivial_casts, trivial_numeric_casts, unreachable_pub)]
#![deny(unstable_features, unused_extern_crates, unused_import_braces, unused_labels)]
#![deny(unused_lifetimes, unused_qualifications, unused_results, variant_size_differences)]
#![allow(unsafe_code, single_use_lifetimes, elided_lifetimes_in_paths)]
#![deny(warnings)]
//! probe crate for the derive (lint header of /repo/example/lib.rs)
/// a type that is neither Clone nor Debug
#[allow(missing_debug_implementations, missing_copy_implementations)]
pub struct Opaque(pub u8);
/// a zero-sized type
#[derive(Debug, Clone, Copy, PartialEq, Default)]
pub struct Zst;
"""

# (type, Debug, Clone, PartialEq)
TYPES = [("u8", 1, 1, 1), ("f64", 1, 1, 1), ("bool", 1, 1, 1), ("String", 1, 1, 1), ("Vec<u32>", 1, 1, 1), ("Option<Box<i32>>", 1, 1, 1),
         ("(u8, String)", 1, 1, 1), ("[u16; 3]", 1, 1, 1), ("()", 1, 1, 1), ("Zst", 1, 1, 1), ("::std::marker::PhantomData<u8>", 1, 1, 1),
         ("::std::collections::HashMap<String, u32>", 1, 1, 1), ("&'static str", 1, 1, 1), ("fn(u32) -> u32", 1, 1, 0),
         ("::std::rc::Rc<::std::cell::RefCell<u8>>", 1, 1, 1), ("Box<[u8]>", 1, 1, 1), ("Opaque", 0, 0, 0), ("Box<dyn Fn(u32) -> u32>", 0, 0, 0),
         ("::std::sync::Mutex<u8>", 1, 0, 0), ("::std::cell::Cell<u8>", 1, 1, 1), ("[Opaque; 2]", 0, 0, 0), ("(Zst, ())", 1, 1, 1), ("Option<&'static [u8]>", 1, 1, 1)]
PLAIN_NAMES = ["x", "mass", "position", "name_of", "k0", "value_1", "_under", "camel_case_long_identifier", "z9"]
RAW_NAMES = ["r#type", "r#match", "r#fn", "r#loop", "r#ref", "r#mut", "r#struct", "r#impl", "r#box", "r#in", "r#async", "r#dyn", "r#move", "r#where"]
METHOD_NAMES = ["len", "push", "iter", "new", "index", "slice", "capacity", "get", "first", "last", "as_ref", "as_ptr", "vec", "ptr", "this", "soa_derive", "std", "core",
                "result", "option", "default", "clone", "drop", "into_iter", "to_owned", "from", "insert", "remove", "to_vec", "resize", "sort", "swap", "a", "b", "c", "t", "u"]
PRIVATE_FAMILIES = ["___soa_derive_private", "___soa_derive_private_1", "___soa_derive_private_2", "___soa_derive_private_slice_1", "___soa_derive_private_slice_2"]


def extracted_locals():
    """the fixed local identifiers of the generated code, from the table the translator extracted on this run"""
    p = os.path.join(LEAN, "Soa", "Extracted", "Shape.lean")
    m = re.search(r"def localIdents : List String := \[(.*?)\]\n", open(p).read(), re.S)
    return re.findall(r'"([^"]+)"', m.group(1)) if m else []


def extracted_families():
    p = os.path.join(LEAN, "Soa", "Extracted", "Shape.lean")
    m = re.search(r"def privateSpans : List \(String × String × String\) := \[(.*?)\]\n", open(p).read(), re.S)
    fams = sorted(set(re.findall(r'\("[^"]+", "([^"]+)", "[^"]+"\)', m.group(1)))) if m else []
    return fams or PRIVATE_FAMILIES


KEYWORDS = {"as", "break", "const", "continue", "crate", "else", "enum", "extern", "false", "fn", "for", "if", "impl", "in", "let", "loop", "match", "mod", "move",
            "mut", "pub", "ref", "return", "self", "Self", "static", "struct", "super", "trait", "true", "type", "unsafe", "use", "where", "while", "async", "await",
            "dyn", "abstract", "become", "box", "do", "final", "macro", "override", "priv", "typeof", "unsized", "virtual", "yield", "try", "gen"}


def ident(n):
    return ("r#" + n) if n in KEYWORDS else n


class Shape:
    def __init__(self, sid, name, fields, vis, derives, soa_derives, soa_attrs, nested=None, drop=False, cls="grammar", note=""):
        self.sid, self.name, self.fields, self.vis, self.derives, self.soa_derives, self.soa_attrs = sid, name, fields, vis, derives, soa_derives, soa_attrs
        self.nested, self.drop, self.cls, self.note = nested, drop, cls, note
        self.extra = ""     # extra items of the module (uses of what the declaration asked for)
        self.soa_derives2 = None   # a second #[soa_derive(...)] attribute on the same struct
        self.no_import = False   # derive through the path `soa_derive::StructOfArray`, nothing imported (the `#[macro_use] extern crate` style)
        # fields: [(vis, name, type, is_nested)]

    derive_path = "StructOfArray"

    def decl(self):
        out = []
        if self.nested:
            self.nested.derive_path = self.derive_path
            out.append(self.nested.decl())
        out.append("/// doc\n#[allow(missing_copy_implementations)]")
        der = [self.derive_path] + self.derives
        out.append(f"#[derive({', '.join(der)})]")
        if self.soa_derives: out.append(f"#[soa_derive({', '.join(self.soa_derives)})]")
        if self.soa_derives2: out.append(f"#[soa_derive({', '.join(self.soa_derives2)})]")
        for k, a in self.soa_attrs: out.append(f"#[soa_attr({k}, {a})]")
        fl = []
        for v, n, t, nest in self.fields:
            fl.append(f"    /// doc\n    {'#[nested_soa] ' if nest else ''}{v + ' ' if v else ''}{n}: {t},")
        out.append(f"{self.vis + ' ' if self.vis else ''}struct {self.name} {{\n" + "\n".join(fl) + "\n}")
        if self.drop:
            out.append(f"impl Drop for {self.name} {{ fn drop(&mut self) {{}} }}")
        return "\n".join(out)

    def module(self):
        """the declaration in its own module, with a use of the generated vector so that nothing is dead code"""
        vis = "pub" if self.vis == "pub" else "pub(crate)"
        if self.no_import: self.derive_path = "soa_derive::StructOfArray"
        imp = "" if self.no_import else "    use soa_derive::StructOfArray;\n"
        return (f"/// module\npub mod m{self.sid} {{\n    #![allow(dead_code)]\n{imp}    #[allow(unused_imports)] use super::{{Opaque, Zst}};\n"
                + "\n".join("    " + l for l in self.decl().split("\n"))
                + f"\n    /// touch the generated types\n    {vis} fn touch() -> usize {{ let v = {self.name}Vec::new(); v.len() + v.as_slice().len() }}\n"
                + "".join(f"    /// a #[nested_soa] field is stored as the nested struct's own SoA vector\n    {self.vis + ' ' if self.vis else ''}fn nested_{i}(v: &{self.name}Vec) -> usize {{ let x: &<{t} as {'soa_derive::' if self.no_import else ''}StructOfArray>::Type = &v.{n}; x.len() }}\n"
                          for i, (_, n, t, nest) in enumerate(self.fields) if nest)
                + "\n".join("    " + l for l in self.extra.split("\n") if l) + "\n}\n")

    def desc(self):
        return {"id": self.sid, "class": self.cls, "decl": self.decl()[:600], "note": self.note}


def grammar(n, seed):
    rng = random.Random(seed)
    pool = list(dict.fromkeys(PLAIN_NAMES + [ident(x) for x in extracted_locals()] + RAW_NAMES + [ident(x) for x in METHOD_NAMES]))
    out = []
    for sid in range(n):
        nf = rng.choice([1, 1, 2, 2, 3, 3, 4, 5, 6, 8, 10, 12])
        names = rng.sample(pool, nf)
        vis = rng.choice(["pub", "pub", "pub(crate)", ""])
        fvis = (lambda: rng.choice(["pub", "pub(crate)", ""])) if vis != "pub" or rng.random() < 0.5 else (lambda: "pub")
        types = [rng.choice(TYPES) for _ in range(nf)]
        dbg = all(t[1] for t in types); cl = all(t[2] for t in types); pe = all(t[3] for t in types)
        derives, soa = [], []
        if dbg and (vis == "pub" or rng.random() < 0.7): derives.append("Debug"); soa.append("Debug")
        elif vis == "pub": vis = "pub(crate)"      # a public type without Debug would trip the user's own lint
        if cl and rng.random() < 0.6:
            derives.append("Clone")
            if rng.random() < 0.6: soa.append("Clone")
        if pe and rng.random() < 0.5:
            derives.append("PartialEq")
            if rng.random() < 0.7: soa.append("PartialEq")
        if rng.random() < 0.15: soa.append("Default")
        attrs = []
        if rng.random() < 0.2: attrs.append((rng.choice(["Vec", "Slice", "SliceMut", "Ref", "RefMut", "Ptr", "PtrMut"]), "allow(dead_code)"))
        if rng.random() < 0.1 and "PartialEq" not in soa and pe and "PartialEq" in derives: attrs.append(("Vec", "derive(PartialEq)"))
        fields = [(fvis(), nm, t[0], False) for nm, t in zip(names, types)]
        nested = None
        if rng.random() < 0.3:
            # a nested field: the inner struct gets the same requests (its generated types must implement what the outer derives need)
            need = ("Debug" in derives, "Clone" in derives, "PartialEq" in derives)
            itypes = [rng.choice([t for t in TYPES if t[1] >= need[0] and t[2] >= need[1] and t[3] >= need[2]]) for _ in range(rng.choice([1, 2, 3]))]
            inames = rng.sample(pool, len(itypes))
            inner = Shape(sid, f"Inner{sid}", [("pub", nm, t[0], False) for nm, t in zip(inames, itypes)], vis, list(derives), list(soa), [], cls="grammar-inner")
            nested = inner
            # (an impl requested for the outer vector through soa_attr needs the same impl on the nested vector: the user's business, not the derive's)
            attrs = [(k, a) for k, a in attrs if not a.startswith("derive(")]
            pos = rng.randrange(len(fields) + 1)
            fields.insert(pos, ("pub" if vis == "pub" else fvis(), rng.choice([x for x in pool if x not in names]), f"Inner{sid}", True))
        drop = rng.random() < 0.15 and "Clone" not in soa
        out.append(Shape(sid, f"S{sid}", fields, vis, derives, soa, attrs, nested, drop))
    return out


def hygiene_corpus(start_id):
    """one struct per reserved identifier: every fixed local of the generated code, every private binder family with the
    indices of a three-field struct, raw identifiers, method / module names — at every field position"""
    out = []
    names = [ident(x) for x in extracted_locals()]
    for fam in extracted_families():
        names += [f"{fam}_{i}" for i in range(3)]
    names += RAW_NAMES + [ident(x) for x in METHOD_NAMES]
    names = list(dict.fromkeys(names))
    sid = start_id
    for k, nm in enumerate(names):
        others = [x for x in ("alpha", "beta") if x != nm]
        pos = k % 3
        fl = others[:]
        fl.insert(min(pos, len(fl)), nm)
        fields = [("pub", n, t, False) for n, t in zip(fl, ["u32", "String", "f64"])]
        out.append(Shape(sid, f"H{sid}", fields, "pub", ["Debug", "Clone", "PartialEq"], ["Debug", "Clone", "PartialEq"], [], cls="hygiene", note=nm))
        sid += 1
    # every pair of private names of one family in one struct, and a struct made only of reserved names
    for fam in extracted_families():
        fields = [("pub", f"{fam}_{i}", "u32", False) for i in (1, 0, 2)]
        out.append(Shape(sid, f"H{sid}", fields, "pub", ["Debug"], ["Debug"], [], cls="hygiene", note=fam + "_*")); sid += 1
    loc = [ident(x) for x in extracted_locals()]
    for i in range(0, len(loc) - 2, 3):
        fields = [("pub", n, "u16", False) for n in loc[i:i + 3]]
        out.append(Shape(sid, f"H{sid}", fields, "pub", ["Debug"], ["Debug"], [], cls="hygiene", note=",".join(loc[i:i + 3]))); sid += 1
    return out


def corner_corpus(start_id):
    out = []
    sid = start_id
    def add(fields, vis="pub", derives=("Debug",), soa=("Debug",), attrs=(), nested=None, drop=False, note=""):
        nonlocal sid
        out.append(Shape(sid, f"C{sid}", fields, vis, list(derives), list(soa), list(attrs), nested, drop, cls="corner", note=note)); sid += 1
        return out[-1]
    add([("pub", "only", "u8", False)], note="one field")
    add([("pub", f"f{i}", "u32", False) for i in range(12)], note="twelve fields")
    add([("pub", f"f{i}", "()", False) for i in range(3)], note="all zero-sized")
    # more fields than std implements its tuple traits for (12)
    cmp = ("Debug", "Clone", "PartialEq", "Eq", "PartialOrd", "Ord", "Hash")
    sh = add([("pub", f"f{i}", "u32", False) for i in range(14)], derives=cmp, soa=cmp, note="fourteen fields, every comparison trait")
    sh.extra = f"/// natural-order sort of a wide struct\npub fn uses(v: &mut {sh.name}Vec) -> usize {{ v.as_mut_slice().sort(); v.len() }}"
    add([("pub", f"f{i}", "String" if i % 3 == 0 else "u64", False) for i in range(20)], derives=("Debug", "Clone"), soa=("Debug", "Clone"), note="twenty fields")
    # the requests of several #[soa_derive] attributes add up, in either order
    for first, second in ((("Clone",), ("Debug", "PartialEq")), (("Debug", "PartialEq"), ("Clone",))):
        sh = add([("pub", "a", "u8", False), ("pub", "b", "String", False)], derives=("Debug", "Clone", "PartialEq"), soa=first, note=f"two #[soa_derive] attributes: {first} then {second}")
        sh.soa_derives2 = list(second)
        sh.extra = (f"fn needs<T: ::std::fmt::Debug + PartialEq + Clone>() {{}}\n/// both attributes are honoured: traits and the cloning API\n"
                    f"pub fn uses(v: &mut {sh.name}Vec, e: {sh.name}) -> usize {{ needs::<{sh.name}Vec>(); v.resize(3, e); let w = v.as_slice().to_vec(); w.len() }}")
    add([("pub", "z", "Zst", False), ("pub", "x", "u64", False)], derives=("Debug", "Clone"), soa=("Debug", "Clone"), note="ZST + Clone API")
    add([("pub", "o", "Opaque", False)], vis="pub(crate)", derives=(), soa=(), note="non-Clone non-Debug only field")
    add([("", "o", "Opaque", False), ("pub(crate)", "s", "String", False)], vis="", derives=(), soa=(), note="private struct, mixed field visibility")
    add([("pub", "d", "String", False), ("pub", "e", "u8", False)], derives=("Debug",), soa=("Debug",), drop=True, note="Drop struct")
    add([("pub", "d", "String", False), ("pub", "e", "u8", False)], derives=("Debug", "Clone"), soa=("Debug", "Clone"), drop=True, note="Drop struct + Clone API + non-Copy field")
    add([("pub", "e", "u8", False), ("pub", "f", "f32", False)], derives=("Debug", "Clone"), soa=("Debug", "Clone"), drop=True, note="Drop struct + Clone API, Copy fields only")
    inner = Shape(sid, f"CInner{sid}", [("pub", "o", "Opaque", False), ("pub", "x", "u8", False)], "pub(crate)", [], [], [], cls="corner-inner")
    add([("pub(crate)", "a", "u32", False), ("pub(crate)", "n", inner.name, True)], vis="pub(crate)", derives=(), soa=(), nested=inner, note="nested struct with a non-Clone field")
    inner2 = Shape(sid, f"CInner{sid}", [("pub", "x", "u8", False)], "pub", ["Debug", "Clone", "PartialEq"], ["Debug", "Clone", "PartialEq"], [], cls="corner-inner")
    inner1 = Shape(sid, f"CMid{sid}", [("pub", "i", inner2.name, True), ("pub", "y", "String", False)], "pub", ["Debug", "Clone", "PartialEq"], ["Debug", "Clone", "PartialEq"], [], inner2, cls="corner-inner")
    add([("pub", "m", inner1.name, True), ("pub", "z", "f64", False), ("pub", "m2", inner2.name, True)], derives=("Debug", "Clone", "PartialEq"), soa=("Debug", "Clone", "PartialEq"), nested=inner1,
        note="two levels of nesting, the same inner type twice")
    # every field nested (the same inner type twice), and a one-field wrapper around another SoA struct
    inner5 = Shape(sid, f"CInner{sid}", [("pub", "x", "u8", False), ("pub", "y", "String", False)], "pub", ["Debug", "Clone", "PartialEq"], ["Debug", "Clone", "PartialEq"], [], cls="corner-inner")
    add([("pub", "p", inner5.name, True), ("pub", "q", inner5.name, True)], derives=("Debug", "Clone", "PartialEq"), soa=("Debug", "Clone", "PartialEq"), nested=inner5,
        note="every field nested, the same inner type twice")
    inner6 = Shape(sid, f"CInner{sid}", [("pub", "x", "f32", False)], "pub", ["Debug"], ["Debug"], [], cls="corner-inner")
    sh = add([("pub", "w", inner6.name, True)], derives=("Debug",), soa=("Debug",), nested=inner6, note="one field, nested; and a struct stamped out by macro_rules! with the nested type as a `ty` fragment")
    # the type of a #[nested_soa] field that reaches the derive through a `$t:ty` fragment is wrapped in an invisible group
    sh.extra = (f"macro_rules! stamp {{ ($name:ident, $payload:ty, $plain:ty) => {{\n    /// doc\n    #[derive(StructOfArray, Debug)]\n    #[soa_derive(Debug)]\n"
                f"    pub struct $name {{\n        /// doc\n        pub id: $plain,\n        /// doc\n        #[nested_soa] pub payload: $payload,\n    }}\n}} }}\n"
                f"stamp!(Stamped{sh.sid}, {inner6.name}, u16);\n/// the stamped struct has its SoA types\npub fn uses() -> usize {{ let v = Stamped{sh.sid}Vec::new(); v.len() + v.payload.len() }}")
    # several attributes of the same name on one kind: all of them arrive
    sh = add([("pub", "a", "u8", False), ("pub", "b", "String", False)], derives=("Debug",), soa=("Debug",),
             attrs=[("Vec", "cfg_attr(all(), derive(Clone))"), ("Vec", "cfg_attr(all(), derive(PartialEq))")], note="two cfg_attr on one kind")
    sh.extra = f"fn needs_both<T: Clone + PartialEq>() {{}}\n/// both requested impls exist\npub fn uses() {{ needs_both::<{sh.name}Vec>() }}"
    # nothing imported at the derive site (the `#[macro_use] extern crate soa_derive;` style), with and without nesting
    sh = add([("pub", "a", "u8", False), ("pub", "b", "String", False)], derives=("Debug", "Clone"), soa=("Debug", "Clone"), note="no import at the derive site")
    sh.no_import = True
    inner3 = Shape(sid, f"CInner{sid}", [("pub", "x", "u8", False), ("pub", "y", "String", False)], "pub", ["Debug", "Clone"], ["Debug", "Clone"], [], cls="corner-inner")
    sh = add([("pub", "a", "u32", False), ("pub", "n", inner3.name, True)], derives=("Debug", "Clone"), soa=("Debug", "Clone"), nested=inner3, note="no import at the derive site, nested field")
    sh.no_import = True
    # the Clone API of the SoA types asks Clone of the field values, not of the structs themselves
    inner4 = Shape(sid, f"CInner{sid}", [("pub", "x", "u8", False), ("pub", "y", "String", False)], "pub", ["Debug"], ["Debug", "Clone"], [], cls="corner-inner")
    sh = add([("pub", "a", "u32", False), ("pub", "n", inner4.name, True)], derives=("Debug",), soa=("Debug", "Clone"), nested=inner4, note="soa_derive(Clone) on structs that are not Clone themselves, nested field")
    sh.extra = f"/// the cloning API is there\npub fn uses(v: &mut {sh.name}Vec, e: {sh.name}) -> usize {{ v.resize(3, e); let w = v.as_slice().to_vec(); w.len() }}"
    add([("pub", "a", "u32", False), ("pub", "s", "String", False)], derives=("Debug",), soa=("Debug", "Clone"), note="soa_derive(Clone) on a struct that is not Clone itself")
    add([("pub", "a", "u8", False)], soa=("Debug", "Default"), note="Default request is ignored")
    add([("pub", "a", "u8", False)], derives=("Debug", "PartialEq", "Eq", "PartialOrd", "Ord", "Hash", "Clone"), soa=("Debug", "PartialEq", "Eq", "PartialOrd", "Ord", "Hash", "Clone"), note="all eight traits")
    add([("pub", "a", "u8", False)], attrs=[(k, "allow(dead_code)") for k in ("Vec", "Slice", "SliceMut", "Ref", "RefMut", "Ptr", "PtrMut")], note="soa_attr on every kind")
    add([("pub", "a", "u8", False)], attrs=[("Vec", "cfg_attr(test, derive(PartialEq))")], note="README example attribute")
    # an attribute request is honoured on the type it names: the requested impl is usable there
    tyof = {"Vec": "{n}Vec", "Slice": "{n}Slice<'static>", "SliceMut": "{n}SliceMut<'static>", "Ref": "{n}Ref<'static>", "RefMut": "{n}RefMut<'static>", "Ptr": "{n}Ptr", "PtrMut": "{n}PtrMut"}
    for k in tyof:
        sh = add([("pub", "a", "u8", False), ("pub", "b", "String", False)], derives=("Debug",), soa=(), attrs=[(k, "derive(Debug)")], note=f"soa_attr({k}, derive(Debug)) is usable")
        sh.extra = f"fn needs_debug<T: ::std::fmt::Debug>() {{}}\n/// the requested impl exists\npub fn uses() {{ needs_debug::<{tyof[k].format(n=sh.name)}>() }}"
    sh = add([("pub", "a", "u8", False), ("pub", "b", "String", False)], derives=("Debug", "Clone", "PartialEq"), soa=("Debug", "Clone", "PartialEq"), note="soa_derive traits are usable on every type")
    sh.extra = ("fn needs<T: ::std::fmt::Debug + PartialEq>() {}\nfn needs_clone<T: Clone>() {}\n/// the requested impls exist\npub fn uses() { "
                + " ".join(f"needs::<{t.format(n=sh.name)}>();" for t in tyof.values()) + f" needs_clone::<{sh.name}Vec>(); }}")
    return out


REJECTIONS = [
    ("enum", "#[derive(StructOfArray)]\npub enum E { A, B }", "only supports struct"),
    ("enum_data", "#[derive(StructOfArray)]\npub enum E { A { x: u32 }, B(u8) }", "only supports struct"),
    ("union", "#[derive(StructOfArray)]\npub union U { a: u32, b: f32 }", "only supports struct"),
    ("tuple_struct", "#[derive(StructOfArray)]\npub struct T(pub u32, pub String);", "panicked"),
    ("tuple_struct_1", "#[derive(StructOfArray)]\npub struct T(u32);", "panicked"),
    ("unit_struct", "#[derive(StructOfArray)]\npub struct U;", "only supports struct with fields"),
    ("empty_struct", "#[derive(StructOfArray)]\npub struct U {}", "only supports struct with fields"),
    ("empty_tuple", "#[derive(StructOfArray)]\npub struct U();", "only supports struct with fields"),
    ("copy", "#[derive(Clone, Copy, StructOfArray)]\n#[soa_derive(Copy)]\npub struct P { pub a: u32 }", "can not derive Copy"),
    ("copy_among", "#[derive(Debug, Clone, Copy, StructOfArray)]\n#[soa_derive(Debug, Clone, Copy)]\npub struct P { pub a: u32 }", "can not derive Copy"),
    ("copy_second_attr", "#[derive(Debug, Clone, Copy, StructOfArray)]\n#[soa_derive(Debug)]\n#[soa_derive(Copy)]\npub struct P { pub a: u32 }", "can not derive Copy"),
    ("bad_kind", "#[derive(StructOfArray)]\n#[soa_attr(Bogus, derive(Debug))]\npub struct P { pub a: u32 }", "expected one of the SoA type"),
    ("bad_attr_shape", "#[derive(StructOfArray)]\n#[soa_attr(Vec)]\npub struct P { pub a: u32 }", "expected attribute like"),
]


def rejection_program(decl):
    return "#[macro_use] extern crate soa_derive;\n" + decl + "\nfn main() {}\n"


API_PROGRAM = """#![allow(unused_variables, unused_mut, dead_code, unused_must_use, unused_unsafe)]
#[macro_use] extern crate soa_derive;
use soa_derive::StructOfArray;
#[derive(StructOfArray, Clone, Debug, PartialEq)]
#[soa_derive(Clone, Debug, PartialEq)]
pub struct N { pub x: u8 }
#[derive(StructOfArray, Clone, Debug, PartialEq)]
#[soa_derive(Clone, Debug, PartialEq)]
pub struct P { pub a: u32, #[nested_soa] pub n: N, pub c: String }
fn mk(i: usize) -> P { P { a: i as u32, n: N { x: i as u8 }, c: format!("s{}", i) } }
fn main() {
    // the Vec<T> mirror
    let mut v = PVec::new();
    let mut w = PVec::with_capacity(4);
    let _: usize = v.capacity(); v.reserve(2); v.reserve_exact(2); v.shrink_to_fit();
    for i in 0..6 { v.push(mk(i)); }
    let _: usize = v.len(); let _: bool = v.is_empty();
    v.truncate(5); let _: P = v.swap_remove(0); v.insert(1, mk(9)); let _: P = v.replace(0, mk(8)); let _: P = v.remove(0); let _: Option<P> = v.pop();
    w.push(mk(7)); v.append(&mut w); let mut t: PVec = v.split_off(2);
    v.retain(|r| *r.a != 99); v.retain_mut(|r| { *r.a += 0; true });
    v.resize(4, mk(3)); let tv: PVec = v.as_slice().to_vec(); let tv2: PVec = v.as_mut_slice().to_vec();
    soa_derive::SoAAppendVec::extend_from_slice(&mut v, tv.as_slice());
    v.extend(vec![mk(1)]); v.extend(tv.iter());
    let c: PVec = vec![mk(1), mk(2)].into_iter().collect();
    let _ = v.get(0); let _ = v.get(0..1); let _ = v.get_mut(0); let _ = v.index(0); let _ = v.index(..); let _ = v.index_mut(0);
    let _ = unsafe { v.get_unchecked(0) }; let _ = unsafe { v.get_unchecked_mut(0) };
    for r in v.iter() { let _: &u32 = r.a; } for r in v.iter_mut() { *r.a += 1; } for r in &v { let _ = r.n.x; } for r in &mut v { *r.n.x += 1; }
    // views
    {
        let s: PSlice = v.as_slice(); let _ = v.slice(0..1);
        let _ = (s.len(), s.is_empty(), s.first(), s.last(), s.split_first(), s.split_last(), s.split_at(1), s.get(0), s.index(0), s.reborrow(), s.as_ptr());
        for r in s.iter() { let _ = r.c; } for r in s.into_iter() { let _ = r.c; } for r in s { let _ = r.c; }
        let _ = unsafe { s.get_unchecked(0) }; let _ = unsafe { PSlice::from_raw_parts(s.as_ptr(), s.len()) };
    }
    {
        let mut m: PSliceMut = v.as_mut_slice();
        let _ = (m.len(), m.is_empty()); let _ = m.as_ref(); let _ = m.as_slice(); let _ = m.first_mut(); let _ = m.last_mut(); let _ = m.get(0); let _ = m.index(0);
        let _ = m.get_mut(0); let _ = m.index_mut(0); m.swap(0, 1); let _ = m.reborrow(); let _ = m.as_ptr(); let p = m.as_mut_ptr();
        m.sort_by(|x, y| x.a.cmp(y.a)); m.sort_by_key(|x| *x.a);
        for r in m.iter() { let _ = r.a; } for r in m.iter_mut() { *r.a += 1; }
        let _ = unsafe { m.get_unchecked(0) }; let _ = unsafe { m.get_unchecked_mut(0) };
        let n = m.len(); let _ = unsafe { PSliceMut::from_raw_parts_mut(p, n) };
    }
    { let m = v.slice_mut(0..2); let (l, r) = m.split_at_mut(1); let _ = l.split_first_mut(); let _ = r.split_last_mut(); }
    { let m = v.as_mut_slice(); for r in m.into_iter() { *r.a += 1; } }
    // references
    let mut e = mk(0);
    { let r: PRef = e.as_ref(); let _: P = r.to_owned(); let _ = r.as_ptr(); let _: P = r.into(); }
    { let mut r: PRefMut = e.as_mut(); let _: P = r.to_owned(); let _: P = r.replace(mk(5)); let _ = r.as_ptr(); let _ = r.as_mut_ptr(); }
    // pointers
    let p: PPtr = v.as_ptr(); let q: PPtrMut = v.as_mut_ptr();
    unsafe {
        let _ = (p.is_null(), p.as_ref(), p.offset(0), p.wrapping_offset(0), p.add(0), p.sub(0), p.wrapping_add(0), p.wrapping_sub(0), p.as_mut_ptr());
        let _ = (q.is_null(), q.as_ref(), q.offset(0), q.wrapping_offset(0), q.add(0), q.sub(0), q.wrapping_add(0), q.wrapping_sub(0), q.as_ptr());
        let _ = q.as_mut();
        let x: P = p.read(); ::std::mem::forget(x); let x: P = p.read_volatile(); ::std::mem::forget(x); let x: P = p.read_unaligned(); ::std::mem::forget(x);
        let x: P = q.read(); q.write(x); let x: P = q.read_volatile(); q.write_volatile(x); let x: P = q.read_unaligned(); q.write_unaligned(x);
    }
    // iterators
    { let mut it: PIter = v.iter(); let _ = (it.len(), it.size_hint()); let _ = it.next(); let _ = it.next_back(); }
    { let mut it: PIterMut = v.iter_mut(); let _ = (it.len(), it.size_hint()); let _ = it.next(); let _ = it.next_back(); }
    // the trait layer and the associated types
    fn generic<V: soa_derive::SoAVec<P>>(v: &mut V) -> usize { v.push(mk(1)); let _ = v.first(); v.len() }
    let _ = generic(&mut v);
    let _: <P as StructOfArray>::Type = PVec::new();
    let _ = PVec::default(); let _ = PSlice::default(); let _ = PSliceMut::default();
    let _ = (tv, tv2, c, t);
    println!("DONE api");
}
"""
