"""Per-property check definitions."""
import time
from .common import *
from .engine import *
from .decide import finish
from . import gen


def sizes(tier):
    return dict(L=4, nrand=280, nops=30) if tier == "quick" else dict(L=6, nrand=4200, nops=60)


def history_check(prop, tier, seed, shapes, monitors, modules, profiles, p_invalid=0.15, level_note=None, masks=True):
    """C01 / C02 / C03 / C08: operation histories on the vector API"""
    t0 = time.time()
    z = sizes(tier)
    for p in set(profiles) | {"debug"}:
        build_harness(p)
    proof = prove(prop, modules)
    suites = []
    b = gen.vec_boundary(shapes, z["L"], with_masks=masks)
    suites.append(run_suite(prop, b, profiles, monitors, "boundary"))
    r = gen.vec_random(shapes, z["nrand"], z["nops"], seed, p_invalid=p_invalid)
    suites.append(run_suite(prop, r, profiles, monitors, "random"))
    # the same histories dispatched through the generic traits (SoAVec / SoASlice / SoASliceMut): the traits are the vector too
    tr = [gen.to_trait(s) for s in (b[::5] + r[::2])]
    suites.append(run_suite(prop, tr, profiles, monitors, "trait-dispatch"))
    # long vectors (around and beyond 64 elements: machine-word and chunk boundaries of anything that packs per-element flags)
    big = gen.vec_random(shapes, 24 if tier == "quick" else 400, 8, seed + 11, p_invalid=p_invalid, max_len=150, start=(60, 135))
    suites.append(run_suite(prop, big, profiles, monitors, "long"))
    if prop in ("C01", "C02"):
        # a user `Clone` that panics at its k-th call inside Extend<Ref> / to_vec: `Vec<T>` is left with whole elements only
        fsh = [x for x in shapes if x in ("Two", "Flat4", "Heap", "NMid", "Deep")] if tier == "quick" else shapes
        _, oth = gen.fault_scenarios(fsh, 2 if tier == "quick" else 4, seed)
        # (`clone_from` with a panicking Clone is NOT compared with `Vec<T>` element by element: std leaves the destination in
        #  an unspecified state - it truncates first - while the derived `clone_from` leaves it untouched; C02 asks lockstep of it,
        #  C16 coherence)
        cf = [x for x in oth if x.tag in ("extend_refs-fault", "to_vec-fault", "resize-overflow") or (prop == "C02" and x.tag == "clone_from-fault")]
        suites.append(run_suite(prop, cf, ["debug"] if tier == "quick" else profiles, monitors, "clone-fault", compare_model=False))
    if prop == "C03":
        # every other API that moves ownership: RefMut::replace, pointer writes, writes through views and iterators
        L = min(z["L"], 4)
        extra = gen.refs_scenarios(shapes, L) + [s for s in gen.ptr_scenarios(shapes, L) if s.tag != "ptr-read"] + \
                [s for s in gen.iter_scenarios(shapes, min(L, 3)) if s.tag == "itermut"]
        suites.append(run_suite(prop, extra, profiles, monitors, "refs-ptr", compare_model=False))
        # calls that panic on invalid arguments of the mutable-slice API (index lists that are not permutations, out-of-range
        # swap / sort ranges): nothing may be destroyed twice or leaked
        suites.append(run_suite(prop, gen.slicemut_invalid([x for x in shapes if x in ("One", "Two", "Heap", "NMid", "DrN")] if tier == "quick" else shapes, min(z["L"], 3), seed),
                                profiles, monitors, "slicemut", compare_model=False))
        # a callback of retain / retain_mut that panics at any of its calls, after any mix of answers (and writes): what the
        # container holds afterwards and what was destroyed still add up (ledger, final drop included)
        rf, _ = gen.fault_scenarios([x for x in shapes if x in ("Two", "Heap", "DrH", "NMid", "DrN")] if tier == "quick" else shapes, 3 if tier == "quick" else 4, seed)
        suites.append(run_suite(prop, rf, ["debug"] if tier == "quick" else profiles, monitors, "retain-fault", compare_model=False))
    if prop == "C08":
        # the other ways an element is moved in or out must not run the struct's destructor either: pointer writes / reads,
        # RefMut::replace, writes through views and mutable iterators, conversions of references
        L = min(z["L"], 3)
        extra = gen.refs_scenarios(shapes, L) + [s for s in gen.ptr_scenarios(shapes, L) if s.tag != "ptr-read"] + \
                [s for s in gen.iter_scenarios(shapes, min(L, 3)) if s.tag == "itermut"]
        suites.append(run_suite(prop, extra, profiles, monitors, "refs-ptr", compare_model=False))
    if prop == "C02":
        suites.append(run_suite(prop, gen.slicemut_invalid(shapes, min(z["L"], 4), seed), profiles, monitors, "slicemut", compare_model=False))
    def widen():
        yield run_suite(prop, gen.vec_boundary(shapes, 6), ["debug", "release"], monitors, "widen-boundary")
        yield run_suite(prop, gen.vec_random(shapes, 3000, 60, seed + 1, p_invalid=0.3), ["debug", "release"], monitors, "widen-random")
    return finish(prop, tier, seed, t0, "proof", proof, suites, monitors, widen=widen,
                  assumptions=["std model validated by S lines", "model tied by I lines"])


def check_C01(tier, seed):
    return history_check("C01", tier, seed, gen.ALL_SHAPES, [mon_c01], ["Soa.Props.C01", "Soa.Props.C01Extracted", "Soa.Lemmas.SkelTie", "Soa.Lemmas.SkelRead.C01", "Soa.Lemmas.LoopTie", "Soa.Lemmas.LoopTieW", "Soa.Lemmas.LoopsW", "Soa.Lemmas.WriteRows", "Soa.Lemmas.RetainIdxW", "Soa.Lemmas.SpecRetainW", "Soa.Lemmas.GenTie", "Soa.Lemmas.Delegations.C01"], ["debug", "release"])

def check_C02(tier, seed):
    return history_check("C02", tier, seed, gen.ALL_SHAPES, [mon_c02], ["Soa.Props.C02", "Soa.Props.World", "Soa.Props.C01Extracted", "Soa.Lemmas.SkelTie", "Soa.Lemmas.SkelRead.C01", "Soa.Lemmas.LoopTie", "Soa.Lemmas.LoopTieW", "Soa.Lemmas.GenTie"], ["debug", "release"], p_invalid=0.4)

def check_C03(tier, seed):
    return history_check("C03", tier, seed, gen.ALL_SHAPES, [mon_c03], ["Soa.Props.C03", "Soa.Props.ExtractedCorollaries", "Soa.Lemmas.SkelTie", "Soa.Lemmas.SkelRead.C01", "Soa.Lemmas.LoopTie", "Soa.Lemmas.LoopTieW", "Soa.Lemmas.RetainConserve", "Soa.Lemmas.GenTie"], ["debug", "release"], p_invalid=0.3)

def check_C08(tier, seed):
    return history_check("C08", tier, seed, gen.DROP_SHAPES, [mon_c08], ["Soa.Props.C08", "Soa.Props.ExtractedCorollaries", "Soa.Lemmas.SkelTie", "Soa.Lemmas.SkelRead.C01", "Soa.Lemmas.LoopTie", "Soa.Lemmas.LoopTieW", "Soa.Lemmas.GenTie"], ["debug", "release"])


def check_C04(tier, seed):
    t0 = time.time()
    L = 4 if tier == "quick" else 6
    for p in ("debug", "release"): build_harness(p)
    proof = prove("C04", ["Soa.Props.C04", "Soa.Lemmas.Delegations.C04"])
    scs = gen.index_exhaustive(gen.ALL_SHAPES, L)
    suites = [run_suite("C04", scs, ["debug", "release"], [mon_c04], "index", compare_model=True)]
    def widen():
        yield run_suite("C04", gen.index_exhaustive(gen.ALL_SHAPES, 6), ["debug", "release"], [mon_c04], "widen-index", compare_model=False)
    return finish("C04", tier, seed, t0, "proof", proof, suites, [mon_c04], widen=widen,
                  extra_cov={"exhaustive": True, "explanation": "all (start,end) in {0..len+2, MAX-1, MAX}^2 x 7 forms (+ exhausted RangeInclusive) x 5 kind/mode pairs x get/index x lengths 0..=L x all shapes x debug/release"})


def check_C09(tier, seed):
    t0 = time.time()
    z = sizes(tier)
    for p in ("debug", "release"): build_harness(p)
    proof = prove("C09", ["Soa.Props.C09"])
    shapes = gen.ALL_SHAPES
    suites = []
    suites.append(run_suite("C09", gen.trait_access(shapes, z["L"]), ["debug", "release"], [mon_c09], "access", compare_model=MODEL_C09))
    hist = [gen.to_trait(s) for s in gen.vec_boundary(shapes, min(z["L"], 3), with_masks=False) + gen.vec_random(shapes, z["nrand"], z["nops"], seed)]
    suites.append(run_suite("C09", hist, ["debug", "release"], [mon_c09], "history", compare_model=MODEL_C09))
    # the provided methods of the traits (sort_by / sort_by_key on SoAVec and SoASliceMut) and apply_index, through trait dispatch
    tsort = [s for s in gen.sort_scenarios(["One", "Two", "NMid"] if tier == "quick" else shapes, 3 if tier == "quick" else 4, seed, nrandom=6, max_random_len=40)
             if any((" tsm_" in l) or (" tvec_" in l) or l.startswith("apply_index") for l in s.lines)]
    suites.append(run_suite("C09", tsort, ["debug", "release"], [mon_c09], "trait-sort", compare_model=MODEL_C09))
    # index lists that are not permutations (through both traits), and the capacity methods of SoAVec against the inherent ones
    suites.append(run_suite("C09", gen.slicemut_invalid(["One", "Two", "NMid"] if tier == "quick" else shapes, 3, seed), ["debug", "release"], [mon_c09], "trait-invalid", compare_model=False))
    suites.append(run_suite("C09", [gen.to_trait(s) for s in gen.cap_scenarios(gen.CAP_SHAPES, z["nrand"] // 4, z["nops"], seed)[::4]], ["debug"] if tier == "quick" else ["debug", "release"],
                            [mon_c09], "trait-capacity", compare_model=False))
    def widen():
        yield run_suite("C09", gen.trait_access(shapes, 6), ["debug", "release"], [mon_c09], "widen-access", compare_model=False)
    return finish("C09", tier, seed, t0, "proof", proof, suites, [mon_c09], widen=widen)

MODEL_C09 = True

def check_C12(tier, seed):
    t0 = time.time()
    z = sizes(tier)
    for p in ("debug", "release"): build_harness(p)
    proof = prove("C12", ["Soa.Props.C12", "Soa.Lemmas.SkelCapTie", "Soa.Lemmas.SkelRead.C12", "Soa.Lemmas.Delegations.C12"])
    scs = gen.cap_scenarios(gen.CAP_SHAPES, z["nrand"], z["nops"], seed) + gen.reserve_overflow(gen.CAP_SHAPES)
    suites = [run_suite("C12", scs, ["debug", "release"], [mon_c12], "capacity", compare_model=MODEL_C12),
              # the capacity API and the growing operations dispatched through the SoAVec trait
              run_suite("C12", [gen.to_trait(s) for s in scs[::3]], ["debug", "release"], [mon_c12], "trait-capacity", compare_model=MODEL_C12)]
    def widen():
        yield run_suite("C12", gen.cap_scenarios(gen.ALL_SHAPES, 3000, 60, seed + 1), ["debug", "release"], [mon_c12], "widen", compare_model=False)
    return finish("C12", tier, seed, t0, "proof", proof, suites, [mon_c12], widen=widen)

MODEL_C12 = True

def check_C17(tier, seed):
    t0 = time.time()
    z = sizes(tier)
    for p in ("debug", "release"): build_harness(p)
    proof = prove("C17", ["Soa.Props.C17"])
    sh = gen.ALL_SHAPES
    L = min(z["L"], 4) if tier == "quick" else z["L"]
    scs = (gen.vec_boundary(sh, L, with_masks=(tier != "quick")) + gen.vec_random(sh, z["nrand"], z["nops"], seed, p_invalid=0.25)
           + gen.index_exhaustive(sh, L) + gen.trait_access(sh, min(L, 3))
           + [gen.to_trait(s) for s in gen.vec_random(sh, z["nrand"] // 2, z["nops"], seed + 5)]
           + gen.cap_scenarios(gen.CAP_SHAPES, z["nrand"] // 2, z["nops"], seed) + gen.reserve_overflow(gen.CAP_SHAPES)
           # long vectors: anything that packs per-element flags into machine words changes behaviour around 64 elements
           + gen.vec_random(sh, 24 if tier == "quick" else 400, 8, seed + 11, p_invalid=0.25, max_len=150, start=(60, 135))
           # the pointer API (wrapping moves with every count, the trait-dispatched bundles)
           + [x for x in gen.ptr_scenarios(["Two", "NMid", "ZZ"] if tier == "quick" else sh, min(L, 2)) if x.tag == "ptr-read"]
           # invalid arguments of the mutable-slice API (swap, apply_index with lists that are no permutations, sorts of invalid ranges)
           + gen.slicemut_invalid(["One", "Two", "NMid"] if tier == "quick" else sh, min(L, 3), seed))
    suites = [run_profile_diff("C17", scs)]
    def widen():
        yield run_profile_diff("C17", gen.vec_random(sh, 3000, 60, seed + 9, p_invalid=0.3) + gen.index_exhaustive(sh, 6), "widen")
    return finish("C17", tier, seed, t0, "proof", proof, suites, [mon_c17], widen=widen)


def simple_check(prop, tier, seed, scenarios_fn, monitor, modules, profiles=("debug", "release"), model=False, widen_fn=None, extra_cov=None):
    t0 = time.time()
    for p in set(profiles) | {"debug"}: build_harness(p)
    proof = prove(prop, modules)
    suites = [run_suite(prop, scenarios_fn(tier), list(profiles), [monitor], "main", compare_model=model)]
    def widen():
        if widen_fn: yield run_suite(prop, widen_fn(), ["debug", "release"], [monitor], "widen", compare_model=False)
    return finish(prop, tier, seed, t0, "proof", proof, suites, [monitor], widen=widen, extra_cov=extra_cov)

MODEL = {"C05": True, "C06": True, "C07": True, "C10": True, "C15": True}

def check_C05(tier, seed):
    L, depth, per = (4, 3, 60) if tier == "quick" else (6, 3, 500)
    return simple_check("C05", tier, seed, lambda t: gen.view_scenarios(gen.ALL_SHAPES, L, depth, seed, per), mon_c05, ["Soa.Props.C05", "Soa.Lemmas.SkelViewTie", "Soa.Lemmas.SkelRead.C05", "Soa.Lemmas.GenViewTie"],
                        model=MODEL["C05"], widen_fn=lambda: gen.view_scenarios(gen.ALL_SHAPES, 6, 3, seed + 1, 300))

def check_C06(tier, seed):
    L = 4 if tier == "quick" else 6
    return simple_check("C06", tier, seed, lambda t: gen.iter_scenarios(gen.ALL_SHAPES, L), mon_c06, ["Soa.Props.C06", "Soa.Lemmas.SkelIterTie", "Soa.Lemmas.SkelRead.C06", "Soa.Lemmas.GenViewTie", "Soa.Lemmas.Delegations.C06"],
                        model=MODEL["C06"], widen_fn=lambda: gen.iter_scenarios(gen.ALL_SHAPES, 6), extra_cov={"exhaustive": True})

def check_C07(tier, seed):
    L = 4 if tier == "quick" else 6
    return simple_check("C07", tier, seed, lambda t: gen.sort_scenarios(gen.ALL_SHAPES, L, seed, 28 if tier == "quick" else 200), mon_c07, ["Soa.Props.C07", "Soa.Lemmas.SkelRead.C07", "Soa.Lemmas.SortTie"],
                        model=MODEL["C07"], widen_fn=lambda: gen.sort_scenarios(gen.ALL_SHAPES, 6, seed + 1, 100))

def check_C10(tier, seed):
    L = 4 if tier == "quick" else 6
    return simple_check("C10", tier, seed, lambda t: gen.ptr_scenarios(gen.ALL_SHAPES, L), mon_c10, ["Soa.Props.C10", "Soa.Lemmas.SkelPtrTie", "Soa.Lemmas.SkelRead.C10"],
                        model=MODEL["C10"], widen_fn=lambda: gen.ptr_scenarios(gen.ALL_SHAPES, 6))

C15_PROBE = """#![allow(dead_code)]
use soa_derive::StructOfArray;
#[derive(StructOfArray, Clone, Debug, PartialEq)]
#[soa_derive(Debug, Clone, PartialEq)]
pub struct In { pub k: u8 }
#[derive(StructOfArray, Clone, Debug, PartialEq)]
#[soa_derive(Debug, Clone, PartialEq)]
pub struct P { pub a: u32, #[nested_soa] pub n: In, pub s: String }
fn name_of<X>(_: &X) -> &'static str { std::any::type_name::<X>() }
fn main() {
    let mut v = PVec::new();
    v.push(P { a: 1, n: In { k: 2 }, s: "x".into() }); v.push(P { a: 3, n: In { k: 4 }, s: "y".into() });
    // conversions called through a BORROWED reference value (`&PRef`, `&PRefMut`): still the owned struct
    let refs: Vec<PRef> = v.iter().collect();
    for r in &refs { let o = r.to_owned(); if name_of(&o).contains("Ref") { println!("FAIL conv to_owned through &PRef gives {}", name_of(&o)); } }
    let o: P = refs.iter().map(|r| r.to_owned()).next().unwrap();
    if o != (P { a: 1, n: In { k: 2 }, s: "x".into() }) { println!("FAIL conv value"); }
    let o2: P = P::from(&refs[1]); let o3: P = P::from(refs[1]);
    if o2 != o3 || o2.a != 3 { println!("FAIL conv From"); }
    { let mut m = v.index_mut(0); let mo = (&m).to_owned(); if name_of(&mo).contains("Ref") { println!("FAIL conv to_owned through &PRefMut gives {}", name_of(&mo)); }
      let fm: P = P::from(&m); *m.a += 1; if fm.a != 1 { println!("FAIL conv From<&RefMut>"); } }
    let e = P { a: 9, n: In { k: 9 }, s: "z".into() };
    if e.as_ref().to_owned() != e { println!("FAIL conv as_ref"); }
    println!("DONE conv");
}
"""

def check_C15(tier, seed):
    L = 4 if tier == "quick" else 6
    # the conversions as a user writes them, also through borrowed reference values (method resolution is part of the surface)
    from . import probes, probecheck
    ok, out, err = probes.build_and_run("c15_conversions", C15_PROBE)
    pf = []
    if not ok or "DONE" not in out:
        first = next((l for l in err.splitlines() if l.startswith("error")), err[:200])
        pf.append(probecheck.ProbeFailure("C15:conversions:compile", f"the conversions of element references (to_owned / From, also through borrowed reference values) do not compile / run: {first}", C15_PROBE, "runs", "rejected"))
    for l in out.splitlines():
        if l.startswith("FAIL"): pf.append(probecheck.ProbeFailure("C15:conversions:" + l.split()[2], l[:300], C15_PROBE, "no FAIL line", l[:300]))
    rc_probe = 0
    for f in pf[:3]:
        print(f"VIOLATION property=C15 replay={probecheck.probe_replay('C15', f)}"); log(f"  {f.key}: {f.what[:300]}"); rc_probe = 1
    return max(rc_probe, _check_C15_harness(tier, seed, L))

def _check_C15_harness(tier, seed, L):
    return simple_check("C15", tier, seed, lambda t: gen.refs_scenarios(gen.ALL_SHAPES, L), mon_c15, ["Soa.Props.C15", "Soa.Lemmas.SkelRefsTie", "Soa.Lemmas.SkelRead.C15", "Soa.Lemmas.Delegations.C15"],
                        model=MODEL["C15"], widen_fn=lambda: gen.refs_scenarios(gen.ALL_SHAPES, 6))


def check_C11(tier, seed):
    t0 = time.time()
    z = sizes(tier)
    build_harness("debug"); build_harness("release")
    proof = prove("C11", ["Soa.Props.C11"])
    L = 3 if tier == "quick" else 5
    nested = [a for a, b in gen.TWINS]
    twin = dict(gen.TWINS)
    def streams(L, nr, seed):
        scs = (gen.vec_boundary(nested, L, with_masks=True) + gen.vec_random(nested, nr, z["nops"], seed, p_invalid=0.2)
               + gen.index_exhaustive(nested, min(L, 3)) + gen.view_scenarios(nested, L, 3, seed, 40) + gen.iter_scenarios(nested, L)
               + gen.sort_scenarios(nested, L, seed, 8) + gen.ptr_scenarios(nested, L) + gen.refs_scenarios(nested, L)
               + gen.trait_access(nested, min(L, 3)) + gen.cap_scenarios(nested, nr // 4, z["nops"], seed))
        return [(s, Scenario(twin[s.shape], s.lines, s.tag)) for s in scs]
    suites = [run_twin_diff("C11", streams(L, z["nrand"], seed), profiles=("debug", "release") if tier != "quick" else ("debug",))]
    def widen():
        yield run_twin_diff("C11", streams(5, 1500, seed + 3), tag="widen")
    return finish("C11", tier, seed, t0, "proof", proof, suites, [mon_c17], widen=widen)


def check_C16(tier, seed):
    t0 = time.time()
    L = 4 if tier == "quick" else 6
    shapes = gen.ALL_SHAPES if tier != "quick" else ["One", "Two", "Flat4", "Heap", "DrH", "DrN", "PlC", "NMid", "NMidF", "Deep"]
    build_harness("debug"); build_harness("release")
    proof = prove("C16", ["Soa.Props.C16", "Soa.Props.ExtractedCorollaries", "Soa.Lemmas.LoopTie", "Soa.Lemmas.LoopTieW", "Soa.Lemmas.GenTie"])
    retain, others = gen.fault_scenarios(shapes, L, seed)
    suites = [run_suite("C16", retain, ["debug", "release"], [mon_c16], "retain", compare_model=True),
              run_suite("C16", others, ["debug"] if tier == "quick" else ["debug", "release"], [mon_c16], "others", compare_model=False)]
    def widen():
        r, o = gen.fault_scenarios(gen.ALL_SHAPES, 6, seed + 1)
        yield run_suite("C16", r + o, ["debug", "release"], [mon_c16], "widen", compare_model=False)
    return finish("C16", tier, seed, t0, "proof", proof, suites, [mon_c16], widen=widen,
                  extra_cov={"exhaustive": True, "explanation": "every invocation index of every callback as panic point for len <= L"})


def check_C19(tier, seed):
    t0 = time.time()
    # (debug builds abort on std's UB checks and on double panics: every fatal scenario is re-run alone, so the thorough
    #  tier is sized by wall time - about 35 000 scenarios per profile - rather than by the full product)
    L = 2 if tier == "quick" else 3
    shapes = ["Two", "NMid", "DrH"] if tier == "quick" else ["Two", "Flat4", "Heap", "DrH", "DrN", "PlC", "NFirst", "NMid", "Deep"]
    build_harness("debug"); build_harness("release")
    proof = prove("C19", ["Soa.Props.C19"])
    scs = gen.desync_scenarios(shapes, L, thin=True)
    suites = [run_suite("C19", scs, ["debug", "release"], [mon_c19], "desync", compare_model=False)]
    return finish("C19", tier, seed, t0, "proof", proof, suites, [mon_c19], widen=None,
                  extra_cov={"explanation": "containers of length <= L desynchronised by pop/push/clear of any one leaf array x every safe method x index values, debug and release; debug aborts isolated per scenario"})


from . import probecheck

CHECKS = {"C19": check_C19, "C16": check_C16, "C11": check_C11, "C05": check_C05, "C06": check_C06, "C07": check_C07, "C10": check_C10, "C15": check_C15, "C17": check_C17, "C12": check_C12, "C09": check_C09, "C04": check_C04, "C01": check_C01, "C02": check_C02, "C03": check_C03, "C08": check_C08,
          "C20": probecheck.check_C20, "C14": probecheck.check_C14, "C18": probecheck.check_C18, "C13": probecheck.check_C13}
