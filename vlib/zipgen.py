"""C20: generator of `soa_zip!` invocation forms -> self-checking probe programs + model request lines."""
import itertools, random

FIELDS = ["a", "b", "c", "d", "n"]
FTYPE = {"a": "u32", "b": "u32", "c": "u32", "d": "u32"}   # one type: a reordering shows as wrong values, not as a type error
# container expression kinds: (name, setup statements, expression, supports mut fields)
CONTAINERS = [
    ("ref_vec", "", "&v", False),
    ("mut_vec", "", "&mut v", True),
    ("as_slice", "", "v.as_slice()", False),
    ("as_mut_slice", "", "v.as_mut_slice()", True),
    ("ref_slice", "let s = v.as_slice();", "&s", False),
    ("mut_slicemut", "let mut s = v.as_mut_slice();", "&mut s", True),
    ("slice_value", "let s = v.as_slice();", "s", False),
    ("slicemut_value", "let s = v.as_mut_slice();", "s", True),
    ("call_slice", "", "whole(&v)", False),
    ("call_slicemut", "", "whole_mut(&mut v)", True),
    ("range_slice", "", "v.slice(0..v.len())", False),
    ("vec_value", "", "mk(len)", False),
    ("ref_slicemut", "let s = v.as_mut_slice();", "&s", False),
    # proper sub-ranges [lo, hi) of the vector (the last element of the tuple marks a windowed container)
    ("sub_slice", "let s = v.slice(lo..hi);", "&s", False, True),
    ("sub_slicemut", "let mut s = v.slice_mut(lo..hi);", "&mut s", True, True),
    ("sub_index", "let s = v.index(lo..hi);", "&s", False, True),
    ("sub_index_mut", "let mut s = v.index_mut(lo..hi);", "&mut s", True, True),
    ("sub_split", "let (_, r) = v.as_slice().split_at(lo); let (s, _) = r.split_at(hi - lo);", "&s", False, True),
    ("sub_split_mut", "let (_, r) = v.as_mut_slice().split_at_mut(lo); let (mut s, _) = r.split_at_mut(hi - lo);", "&mut s", True, True),
]


def window(container, n):
    """the window [lo, hi) of a vector of n elements a container expression denotes"""
    if len(CONTAINERS[container]) > 4:
        lo = min(1, n); hi = max(lo, n - 1)
        return lo, hi
    return 0, n

# external expression kinds: (name, expr template with {e}, item type, deref prefix)
EXTERNALS = [
    ("ref", "&{e}", "&i32"),
    ("iter", "{e}.iter()", "&i32"),
    ("value", "{e}.clone()", "i32"),
    ("range", "({b}..{b} + {e}.len() as i32)", "i32"),
]
EXT_LEN = {"shorter": "wl.saturating_sub(1)", "equal": "wl", "longer": "wl + 2"}


class Form:
    def __init__(self, fid, sels, container, exts, trailing):
        self.fid, self.sels, self.container, self.exts, self.trailing = fid, sels, container, exts, trailing
        # sels: [(field, mut)], container: index into CONTAINERS, exts: [(kind index, lenclass)], trailing: number of trailing commas

    def en(self, k):
        """name of the k-th external variable: in every third form the externals are named like fields of the struct (the
        selected ones first) - a local of the caller that is spelled like a field must still be the caller's local"""
        if self.fid % 3 != 0: return f"e{k}"
        cands = list(dict.fromkeys([f for f, _ in self.sels] + ["a", "b", "c", "d"]))
        return cands[k] if k < len(cands) else f"e{k}"

    def invocation(self):
        c = CONTAINERS[self.container]
        sel = ", ".join(("mut " if m else "") + f for f, m in self.sels)
        parts = [c[2], f"[{sel}]"]
        for k, (ek, _) in enumerate(self.exts):
            parts.append(EXTERNALS[ek][1].format(e=self.en(k), b=1000 * (k + 1)))
        return "soa_zip!(" + ", ".join(parts) + "," * self.trailing + ")"

    def desc(self):
        return {"id": self.fid, "invocation": self.invocation(), "container": CONTAINERS[self.container][0],
                "externals": [(EXTERNALS[k][0], l) for k, l in self.exts]}

    def ext_len(self, k, n):
        lo, hi = window(self.container, n)
        n = hi - lo
        l = self.exts[k][1]
        return max(n - 1, 0) if l == "shorter" else n if l == "equal" else n + 2

    def model_line(self, n):
        sel = ",".join(("mut:" if m else "") + f for f, m in self.sels)
        ext = ",".join(str(self.ext_len(k, n)) for k in range(len(self.exts)))
        lo, hi = window(self.container, n)
        return f"zip len={hi - lo} off={lo} total={n} sel={sel} ext={ext}"

    def rust_fn(self):
        c = CONTAINERS[self.container]
        ncomp = len(self.sels) + len(self.exts)
        names = [f"t{j}" for j in range(ncomp)]
        pat = names[0] if ncomp == 1 else "(" + ", ".join(names) + ")"
        body = []
        shows = []
        writes = []
        oracle_parts = []   # index-loop oracle
        for j, (f, m) in enumerate(self.sels):
            if f == "n":
                ty = "InRefMut<'_>" if m else "InRef<'_>"
                shows.append(f"format!(\"{{}}:{{}}\", *t{j}.x, *t{j}.y)")
                if m: writes.append(f"*t{j}.x += 1; *t{j}.y += 2;")
                oracle_parts.append("format!(\"{}:{}\", v.n.x[lo + i], v.n.y[lo + i])")
            else:
                ty = ("&mut " if m else "&") + FTYPE[f]
                shows.append(f"format!(\"{{}}\", *t{j})")
                if m: writes.append(f"*t{j} += 1;")
                oracle_parts.append(f"format!(\"{{}}\", v.{f}[lo + i])")
            body.append(f"let {'mut ' if (m and f == 'n') else ''}t{j}: {ty} = t{j};")
        for k, (ek, _) in enumerate(self.exts):
            j = len(self.sels) + k
            ty = EXTERNALS[ek][2]
            body.append(f"let t{j}: {ty} = t{j};")
            shows.append(f"format!(\"{{}}\", {'*' if ty.startswith('&') else ''}t{j})")
            oracle_parts.append(f"format!(\"{{}}\", {self.en(k)}[i])")
        ext_decl = "\n".join(
            f"        let {self.en(k)}: Vec<i32> = (0..{EXT_LEN[l]}).map(|i| {1000 * (k + 1)} + i as i32).collect();" for k, (_, l) in enumerate(self.exts))
        min_terms = ["wl"] + [f"{self.en(k)}.len()" for k in range(len(self.exts))]
        oracle_writes = []
        for f, m in self.sels:
            if not m: continue
            if f == "n": oracle_writes.append("w.n.x[lo + i] += 1; w.n.y[lo + i] += 2;")
            else: oracle_writes.append(f"w.{f}[lo + i] += 1;")
        return f"""
fn form_{self.fid}() {{
    for len in 0..=5usize {{
        let mut v = mk(len);
        let (lo, hi): (usize, usize) = {"(std::cmp::min(1, len), std::cmp::max(std::cmp::min(1, len), len.saturating_sub(1)))" if len(c) > 4 else "(0, len)"};
        let wl = hi - lo;
{ext_decl}
        // oracle: index loop over the public field arrays
        let m = *[{', '.join(min_terms)}].iter().min().unwrap();
        let mut want: Vec<String> = Vec::new();
        let mut w = mk(len);
        for i in 0..m {{
            want.push([{', '.join(oracle_parts)}].join(","));
            {' '.join(oracle_writes)}
        }}
        let mut got: Vec<String> = Vec::new();
        {{
            {c[1]}
            for {pat} in {self.invocation()} {{
                {' '.join(body)}
                got.push([{', '.join(shows)}].join(","));
                {' '.join(writes)}
            }}
        }}
        let verdict = if got == want && dump(&v) == dump(&w) {{ "OK" }} else {{ "FAIL" }};
        println!("R {self.fid} {{}} {{}} {{}} | {{}}", len, verdict, got.iter().map(|t| format!("({{}})", t)).collect::<Vec<_>>().join(" "), dump(&v));
        if verdict == "FAIL" {{ println!("W {self.fid} {{}} {{}} | {{}}", len, want.iter().map(|t| format!("({{}})", t)).collect::<Vec<_>>().join(" "), dump(&w)); }}
    }}
}}
"""


PRELUDE = """#![allow(unused_mut, unused_variables, dead_code, unused_parens)]
#[macro_use] extern crate soa_derive;
use soa_derive::StructOfArray;
#[derive(StructOfArray)] pub struct In { pub x: u8, pub y: u16 }
#[derive(StructOfArray)] pub struct Z { pub a: u32, pub b: u32, pub c: u32, pub d: u32, #[nested_soa] pub n: In }
fn mk(len: usize) -> ZVec {
    let mut v = ZVec::new();
    for i in 0..len {
        v.push(Z { a: 10 + i as u32, b: 60 + i as u32, c: 110 + i as u32, d: 160 + i as u32, n: In { x: 200 + i as u8, y: 260 + i as u16 } });
    }
    v
}
fn dump(v: &ZVec) -> String {
    format!("a={:?} b={:?} c={:?} d={:?} x={:?} y={:?}", v.a, v.b, v.c, v.d, v.n.x, v.n.y)
}
fn whole<'a>(v: &'a ZVec) -> ZSlice<'a> { v.as_slice() }
fn whole_mut<'a>(v: &'a mut ZVec) -> ZSliceMut<'a> { v.as_mut_slice() }
"""


def program(forms):
    body = "".join(f.rust_fn() for f in forms)
    main = "fn main() {\n" + "".join(f"    form_{f.fid}();\n" for f in forms) + "}\n"
    return PRELUDE + body + main


def all_selections(max_fields=4):
    out = []
    for k in range(1, max_fields + 1):
        for perm in itertools.permutations(FIELDS, k):
            for mask in itertools.product([False, True], repeat=k):
                out.append(list(zip(perm, mask)))
    return out


def ext_choices():
    out = [[]]
    lens = list(EXT_LEN)
    for k in range(len(EXTERNALS)):
        for l in lens: out.append([(k, l)])
    for k1 in range(len(EXTERNALS)):
        for k2 in range(len(EXTERNALS)):
            for l1 in lens:
                for l2 in lens: out.append([(k1, l1), (k2, l2)])
    return out


def generate(n, seed, containers=None):
    """n forms: a covering core (every container kind x arity x mut/no-mut x external count, every external kind and
    length class, every trailing-comma variant) followed by a random sample of the full product"""
    rng = random.Random(seed)
    sels = all_selections()
    exts = ext_choices()
    cidx = list(range(len(CONTAINERS))) if containers is None else containers
    forms = []
    seen = set()

    def add(sel, c, ex, tr):
        if any(m for _, m in sel) and not CONTAINERS[c][3]: return False
        key = (tuple(sel), c, tuple(ex), tr)
        if key in seen: return False
        seen.add(key)
        forms.append(Form(len(forms), sel, c, ex, tr))
        return True

    # covering core
    for c in cidx:
        for k in range(1, 5):
            for nex in range(3):
                for want_mut in (False, True):
                    for _ in range(20):
                        nest_ok = rng.random() < 0.3
                        sel = rng.choice([s for s in sels if len(s) == k and any(m for _, m in s) == want_mut
                                          and (nest_ok or all(f != "n" for f, _ in s))])
                        ex = rng.choice([e for e in exts if len(e) == nex])
                        if add(sel, c, ex, rng.choice([0, 0, 1, 2])): break
                    if len(forms) >= n: return forms
    # wide invocations ("any number of extra external iterables"): up to 16 inputs in one call
    lens = list(EXT_LEN)
    wide = 0
    for nex in (8, 9, 10, 12):
        for c in cidx[:4]:
            sel = rng.choice([s for s in sels if len(s) == 4 and all(f != "n" for f, _ in s)
                              and (CONTAINERS[c][3] or not any(m for _, m in s))])
            ex = [(j % len(EXTERNALS), lens[(j * 7 + nex) % 3] if j == nex // 2 else "equal") for j in range(nex)]
            if len(forms) < n + 16 and add(sel, c, ex, 0): wide += 1
    n += wide
    flat = [s for s in sels if all(f != "n" for f, _ in s)]
    while len(forms) < n:
        add(rng.choice(sels if rng.random() < 0.3 else flat), rng.choice(cidx), rng.choice(exts), rng.choice([0, 0, 1, 2]))
    return forms
