"""C18: probe corpus generated from the extracted signature table (work/sigs.json): aliasing / escape / move programs with
the verdict the loan calculus predicts, legal counterparts, Copy / variance probes, Send/Sync/Copy truth tables."""
import json, os, re
from .common import *

PRELUDE = """#![allow(unused_variables, unused_mut, dead_code, unused_imports, unused_assignments)]
#[macro_use] extern crate soa_derive;
use soa_derive::StructOfArray;
#[derive(StructOfArray, Clone, Debug, PartialEq)]
pub struct N { pub x: u8 }
#[derive(StructOfArray, Clone, Debug, PartialEq)]
pub struct P { pub a: u32, #[nested_soa] pub n: N, pub c: u16 }
fn mkp(i: usize) -> P { P { a: i as u32, n: N { x: i as u8 }, c: 2 * i as u16 } }
fn make() -> PVec { let mut v = PVec::new(); for i in 0..3 { v.push(mkp(i)); } v }
fn use_<T>(_t: &T) {}
"""

# how to obtain a source of each kind from a root vector `v` (declared by the pattern)
SRC = {
    "vec": ("let mut v = make();", "v", "PVec"),
    "slice": ("let v = make(); let c = v.as_slice();", "c", "PSlice<'_>"),
    "sliceMut": ("let mut v = make(); let mut c = v.as_mut_slice();", "c", "PSliceMut<'_>"),
    "ref": ("let v = make(); let c = v.index(0);", "c", "PRef<'_>"),
    "refMut": ("let mut v = make(); let mut c = v.index_mut(0);", "c", "PRefMut<'_>"),
    "iter": ("let v = make(); let mut c = v.iter();", "c", "PIter<'_>"),
    "iterMut": ("let mut v = make(); let mut c = v.iter_mut();", "c", "PIterMut<'_>"),
    "elem": ("let mut v = mkp(0);", "v", "P"),
}
COPY = {"slice", "ref", "ptr", "ptrMut"}
IDX = {"usize": "0usize", "::std::ops::Range<usize>": "0..2", "::std::ops::RangeTo<usize>": "..2", "::std::ops::RangeFrom<usize>": "1..",
       "::std::ops::RangeFull": "..", "::std::ops::RangeInclusive<usize>": "0..=1", "::std::ops::RangeToInclusive<usize>": "..=1"}
ARGS = {"get": "0", "get_mut": "0", "index": "0", "index_mut": "0", "slice": "0..2", "slice_mut": "0..2", "split_at": "1", "split_at_mut": "1"}


def load_sigs():
    return json.load(open(os.path.join(WORK, "sigs.json")))


def src_kind(s):
    m = re.match(r"\(\.gen \.(\w+)\)", s["src"])
    return m.group(1) if m else ("elem" if s["src"] == ".elem" else None)


def call_expr(s, var):
    """Rust expression calling the function on the source variable `var`; None if the corpus has no template for it"""
    k = src_kind(s)
    owner, tr, name, mode = s["owner"], s["trait"], s["name"], s["mode"]
    by = {"shared": f"&{var}", "excl": f"&mut {var}", "value": var}[mode]
    if owner in IDX:   # index-trait impls: the index value is the receiver, the container the parameter
        trait = "SoAIndexMut" if "SoAIndexMut" in tr else "SoAIndex"
        return f"soa_derive::{trait}::{name}({IDX[owner]}, {by})"
    if tr == "IntoIterator":
        return f"IntoIterator::into_iter({by})"
    if tr in ("Iterator", "DoubleEndedIterator"):
        return f"{tr}::{name}({by})"
    if tr.startswith("::soa_derive::SoA") or tr.startswith("::soa_derive::ToSoAVec"):
        ty = SRC[k][2].replace("<'_>", "")
        a = ARGS.get(name)
        return f"<{ty} as {tr[2:]}>::{name}({by}{', ' + a if a else ''})"
    if tr == "" and (owner.startswith("P")):
        a = ARGS.get(name, "")
        if name in ("get", "get_mut", "index", "index_mut"): a = "0usize"
        return f"{var}.{name}({a})"
    return None


def modes(s):
    """(take, hold, rootHold) letters for the calculus, as Sig.hold / Sig.rootHold define them"""
    L = {"shared": "S", "excl": "E", "value": "V", "none": "N"}
    take = L[s["mode"]]
    hold = "N" if (s["mode"] == "value" or s["out"] == "none" or not s["tied"]) else take
    root = {"mutable": "E", "shared": "S", "none": "N"}[s["out"]]
    return take, hold, root


class Probe:
    def __init__(self, pid, kind, what, body, model_line, sig=None):
        self.pid, self.kind, self.what, self.body, self.model_line, self.sig = pid, kind, what, body, model_line, sig

    def program(self):
        return PRELUDE + "fn main() {\n" + self.body + "\n}\n"


def corpus(sigs):
    """all aliasing / escape / move probes + legal counterparts; returns (probes, uncovered signatures)"""
    out, uncovered = [], []
    seen = set()
    for s in sigs:
        if s["unsafe"] or s["out"] == "none": continue
        k = src_kind(s)
        if k is None or k not in SRC:
            continue
        setup, var, _ = SRC[k]
        call = call_expr(s, var)
        if call is None:
            uncovered.append(f"{s['owner']} {s['trait']} {s['name']}"); continue
        key = (k, call)
        if key in seen: continue
        seen.add(key)
        take, hold, root = modes(s)
        cp = "1" if k in COPY else "0"
        label = f"{s['owner']}{'<' + s['trait'] + '>' if s['trait'] else ''}::{s['name']} on {k}"
        lenq = f"{var}.len()" if k in ("vec", "slice", "sliceMut") else (f"use_(&{var})")
        shared_access = {"vec": f"{var}.as_slice()", "slice": f"{var}.reborrow()", "sliceMut": f"{var}.as_slice()", "elem": f"{var}.as_ref()",
                         "refMut": f"{var}.as_ref()", "ref": f"*(&{var})", "iter": None, "iterMut": None}.get(k)
        def add(kind, body, steps):
            out.append(Probe(len(out), kind, f"{kind}: {label}", body, f"surface {cp} {steps}", s))
        # legal: one call, used
        add("single", f"    {setup}\n    let x = {call};\n    use_(&x);", f"c{take}{hold} u0")
        # two results alive together
        add("twice", f"    {setup}\n    let x = {call};\n    let y = {call};\n    use_(&x); use_(&y);", f"c{take}{hold} c{take}{hold} u0 u1")
        # sequential
        add("sequential", f"    {setup}\n    {{ let x = {call}; use_(&x); }}\n    {{ let y = {call}; use_(&y); }}", f"c{take}{hold} u0 c{take}{hold} u1")
        # a result alive across a shared access of the source that keeps nothing (len / a read)
        if k in ("vec", "slice", "sliceMut"):
            add("then_len", f"    {setup}\n    let x = {call};\n    let n = {lenq};\n    use_(&x);", f"c{take}{hold} cSN u0")
        # a shared view alive across the call
        if shared_access and k in ("vec", "sliceMut", "elem", "refMut"):
            add("shared_across", f"    {setup}\n    let s = {shared_access};\n    let x = {call};\n    use_(&s);", f"cSS c{take}{hold} u0")
        # the result outlives the root container
        add("escape", f"    let x;\n    {{\n        {setup}\n        x = {call};\n    }}\n    use_(&x);", f"c{take}{root} end u0")
    return out, uncovered


def fixed_probes():
    """Copy / move / variance / disjointness probes (must-compile and must-not-compile), with the calculus line where one applies"""
    P = []
    def add(kind, what, body, expect, line=None):
        P.append((Probe(len(P), kind, what, body, line), expect))
    # Copy: shared views / references / pointer bundles can be used after being copied
    for k, mk in (("slice", "let v = make(); let s = v.as_slice();"), ("ref", "let v = make(); let s = v.index(0);"),
                  ("ptr", "let v = make(); let s = v.as_ptr();"), ("ptrMut", "let mut v = make(); let s = v.as_mut_ptr();")):
        add("copy", f"{k} is Copy", f"    {mk}\n    let t = s;\n    use_(&s); use_(&t);", True, "surface 1 cVN cVN u0 u1")
    for k, mk in (("vec", "let s = make();"), ("sliceMut", "let mut v = make(); let s = v.as_mut_slice();"), ("refMut", "let mut v = make(); let s = v.index_mut(0);"),
                  ("iterMut", "let mut v = make(); let s = v.iter_mut();"), ("iter", "let v = make(); let s = v.iter();")):
        add("move", f"{k} is not Copy: use after move", f"    {mk}\n    let t = s;\n    use_(&s); use_(&t);", False, "surface 0 cVN cVN u0 u1")
    # a mutable access cannot be duplicated by cloning either (two live mutable accesses to the same elements)
    for k, mk in (("sliceMut", "let mut v = make(); let s = v.as_mut_slice();"), ("refMut", "let mut v = make(); let s = v.index_mut(0);"),
                  ("iterMut", "let mut v = make(); let s = v.iter_mut();")):
        add("move", f"{k} is not Clone", f"    {mk}\n    let t = s.clone();\n    use_(&s); use_(&t);", False)
    # everything that conjures a view, reference or vector out of a pointer bundle (or skips a bounds check) is an `unsafe fn`:
    # safe code cannot build two live mutable views of the same elements, or a view that outlives its vector, that way
    gates = [("SliceMut::from_raw_parts_mut", "let mut v = make(); let n = v.len(); let p = v.as_mut_ptr();", "let a = {U}PSliceMut::from_raw_parts_mut(p, n){V}; let b = {U}PSliceMut::from_raw_parts_mut(p, n){V}; use_(&a); use_(&b);"),
             ("Slice::from_raw_parts", "let v = make(); let n = v.len(); let p = v.as_ptr();", "let a: PSlice<'static> = {U}PSlice::from_raw_parts(p, n){V}; use_(&a);"),
             ("Vec::from_raw_parts", "let mut v = make(); let n = v.len(); let c = v.capacity(); let p = v.as_mut_ptr();", "let w = {U}PVec::from_raw_parts(p, n, c){V}; std::mem::forget(w);"),
             ("PtrMut::as_mut", "let mut v = make(); let p = v.as_mut_ptr();", "let a: PRefMut<'static> = {U}p.as_mut(){V}.unwrap(); let b: PRefMut<'static> = {U}p.as_mut(){V}.unwrap(); use_(&a); use_(&b);"),
             ("Ptr::as_ref", "let v = make(); let p = v.as_ptr();", "let a: PRef<'static> = {U}p.as_ref(){V}.unwrap(); use_(&a);"),
             ("Vec::get_unchecked_mut", "let mut v = make();", "let a = {U}v.get_unchecked_mut(0){V}; use_(&a);"),
             ("Slice::get_unchecked", "let v = make(); let s = v.as_slice();", "let a = {U}s.get_unchecked(0){V}; use_(&a);")]
    for nm, setup_, body_ in gates:
        add("unsafe_gate", f"{nm} needs unsafe", f"    {setup_}\n    {body_.replace('{U}', '').replace('{V}', '')}", False)
        add("unsafe_gate", f"{nm} inside an unsafe block", f"    {setup_}\n    {body_.replace('{U}', 'unsafe {{ ').replace('{V}', ' }}')}".replace("{{", "{").replace("}}", "}"), True)
    # a shared view obtained from a mutable slice borrows that slice: no write through the slice while the shared view is alive
    for how in ("as_ref", "as_slice", "reborrow"):
        add("mutate", f"write through a mutable slice while its {how}() is alive", f"    let mut v = make(); let mut m = v.as_mut_slice();\n    let s = m.{how}();\n    *m.index_mut(0).a += 1;\n    use_(&s);", False)
        add("mutate", f"{how}() of a mutable slice, then write once it is dead", f"    let mut v = make(); let mut m = v.as_mut_slice();\n    {{ let s = m.{how}(); use_(&s); }}\n    *m.index_mut(0).a += 1;", True)
    # a named mutable slice can be walked more than once, and used after a walk
    add("idiom", "two passes over one mutable slice", "    let mut v = make(); let mut m = v.as_mut_slice();\n    for r in m.iter_mut() { *r.a += 1; }\n    for r in m.iter() { use_(&r); }\n    m.swap(0, 1); *m.index_mut(0).a += 1;", True)
    # what a callback is shown lives for the call only: it cannot be kept and looked at after the container was reordered / compacted
    add("callback", "sort_by_key argument cannot escape", "    let mut v = make(); let mut s = v.as_mut_slice(); let mut seen = Vec::new();\n    s.sort_by_key(|e| { seen.push(e); *e.a });\n    use_(&seen);", False)
    add("callback", "sort_by arguments cannot escape", "    let mut v = make(); let mut s = v.as_mut_slice(); let mut seen = Vec::new();\n    s.sort_by(|x, y| { seen.push(x); x.a.cmp(y.a) });\n    use_(&seen);", False)
    add("callback", "retain argument cannot escape", "    let mut v = make(); let mut seen = Vec::new();\n    v.retain(|e| { seen.push(e); true });\n    use_(&seen);", False)
    add("callback", "retain_mut argument cannot escape", "    let mut v = make(); let mut seen = Vec::new();\n    v.retain_mut(|e| { seen.push(e); true });\n    use_(&seen);", False)
    add("callback", "sort_by_key with a key computed from the argument", "    let mut v = make(); let mut s = v.as_mut_slice();\n    s.sort_by_key(|e| *e.a);\n    use_(&s);", True)
    add("callback", "retain_mut writing through the argument", "    let mut v = make();\n    v.retain_mut(|e| { *e.a += 1; true });\n    use_(&v);", True)
    # disjoint halves of a mutable slice are both usable; the original is not
    add("split", "split_at_mut halves are independent", "    let mut v = make(); let s = v.as_mut_slice();\n    let (mut l, mut r) = s.split_at_mut(1);\n    *l.index_mut(0).a += 1; *r.index_mut(0).a += 1; use_(&l); use_(&r);", True, "surface 0 cVN u0 u0")
    add("split", "split_at_mut consumes the mutable slice", "    let mut v = make(); let s = v.as_mut_slice();\n    let (l, r) = s.split_at_mut(1);\n    let n = s.len();\n    use_(&l);", False, "surface 0 cVN cSN u0")
    # reborrow: sequential reuse after the reborrow is dead; not while it is alive
    add("reborrow", "reborrow then reuse", "    let mut v = make(); let mut s = v.as_mut_slice();\n    { let mut r = s.reborrow(); *r.index_mut(0).a += 1; }\n    *s.index_mut(1).a += 1; use_(&s);", True, "surface 0 cEE u0 cEE u1")
    add("reborrow", "reborrow alive across use of the original", "    let mut v = make(); let mut s = v.as_mut_slice();\n    let r = s.reborrow();\n    let n = s.len();\n    use_(&r);", False, "surface 0 cEE cSN u0")
    # mutation of the vector while a view of it is alive
    add("mutate", "push while a shared slice is alive", "    let mut v = make();\n    let s = v.as_slice();\n    v.push(mkp(9));\n    use_(&s);", False, "surface 0 cSS cEN u0")
    add("mutate", "push while an element reference is alive", "    let mut v = make();\n    let r = v.index(0);\n    v.push(mkp(9));\n    use_(&r);", False, "surface 0 cSS cEN u0")
    add("mutate", "push while an iterator is alive", "    let mut v = make();\n    let mut it = v.iter();\n    v.push(mkp(9));\n    use_(&it.next());", False, "surface 0 cSS cEN u0")
    add("mutate", "push after the view is dead", "    let mut v = make();\n    { let s = v.as_slice(); use_(&s); }\n    v.push(mkp(9));", True, "surface 0 cSS u0 cEN")
    add("mutate", "drop the vector while a mutable slice is alive", "    let mut v = make();\n    let s = v.as_mut_slice();\n    drop(v);\n    use_(&s);", False, "surface 0 cEE cVN u0")
    # writes through a shared view are impossible
    add("readonly", "no write through a shared slice", "    let mut v = make();\n    let s = v.as_slice();\n    *s.index(0).a += 1;", False)
    add("readonly", "no write through a shared reference", "    let mut v = make();\n    let r = v.index(0);\n    *r.a = 5;", False)
    add("readonly", "no mutable view from a shared borrow of the vector", "    let v = make();\n    let r = &v;\n    let s = r.as_mut_slice();", False)
    # canonical idioms of the std slice API that rely on results carrying the view's own lifetime, not the borrow of the view value
    add("idiom", "walk a shared slice with split_first", "    let v = make();\n    let mut rest = v.as_slice(); let mut n = 0u32;\n    while let Some((h, t)) = rest.split_first() { n += *h.a; rest = t; }\n    use_(&n);", True)
    add("idiom", "walk a shared slice with split_last", "    let v = make();\n    let mut rest = v.as_slice(); let mut n = 0u32;\n    while let Some((h, t)) = rest.split_last() { n += *h.a; rest = t; }\n    use_(&n);", True)
    add("idiom", "first() of a temporary view", "    let v = make();\n    let f = v.as_slice().first();\n    let l = v.as_slice().last();\n    use_(&f); use_(&l);", True)
    add("idiom", "split_at of a temporary view", "    let v = make();\n    let (l, r) = v.as_slice().split_at(1);\n    use_(&l); use_(&r);", True)
    add("idiom", "halves outlive the view value", "    let v = make();\n    let (l, r) = { let s = v.as_slice(); s.split_at(1) };\n    use_(&l); use_(&r);", True)
    add("idiom", "into_iter of a temporary view", "    let v = make();\n    let it = v.as_slice().into_iter();\n    for r in it { use_(&r); }", True)
    add("idiom", "walk a mutable slice with split_first_mut", "    let mut v = make();\n    let mut rest = v.as_mut_slice();\n    while let Some((h, t)) = rest.split_first_mut() { *h.a += 1; rest = t; }", True)
    add("idiom", "walk a mutable slice with split_last_mut", "    let mut v = make();\n    let mut rest = v.as_mut_slice();\n    while let Some((h, t)) = rest.split_last_mut() { *h.a += 1; rest = t; }", True)
    add("idiom", "recursive halving of a mutable slice", "    fn bump(s: PSliceMut) { if s.len() <= 1 { for r in s.into_iter() { *r.a += 1; } } else { let m = s.len() / 2; let (l, r) = s.split_at_mut(m); bump(l); bump(r); } }\n    let mut v = make();\n    bump(v.as_mut_slice());", True)
    add("idiom", "elements of a mutable iterator are independent", "    let mut v = make();\n    let mut it = v.iter_mut();\n    let a = it.next(); let b = it.next();\n    use_(&a); use_(&b);", True)
    add("idiom", "collect references from an iterator", "    let v = make();\n    let refs: Vec<PRef> = v.iter().collect();\n    use_(&refs);", True)
    # covariance in the lifetime
    # (the iterators of a struct with a nested field name the nested iterator through an associated type of SoAIter<'a>,
    #  which makes them invariant; the property asks covariance of views and references only)
    for ty in ("PSlice", "PRef", "PSliceMut", "PRefMut"):
        add("variance", f"{ty} is covariant in its lifetime", f"    fn shorten<'a: 'b, 'b>(s: {ty}<'a>) -> {ty}<'b> {{ s }}\n    let mut v = make();", True)
    add("variance", "a shared slice cannot be lengthened", "    fn lengthen<'a, 'b>(s: PSlice<'a>) -> PSlice<'b> { s }\n    let mut v = make();", False)
    add("variance", "two shared slices of different lifetimes unify", "    fn pick<'a>(x: PSlice<'a>, y: PSlice<'a>) -> PSlice<'a> { if x.len() > y.len() { x } else { y } }\n    let v = make(); let s = v.as_slice();\n    { let w = make(); let t = w.as_slice(); let p = pick(s, t); use_(&p); }\n    use_(&s);", True)
    return P


PAYLOADS = [("u32", "u32", "7", (1, 1)), ("rc", "std::rc::Rc<u32>", "std::rc::Rc::new(7)", (0, 0)), ("cell", "std::cell::Cell<u32>", "std::cell::Cell::new(7)", (1, 0)),
            ("nosend", "NoSend", "unreachable!()", (0, 1))]   # !Send + Sync (what MutexGuard is), but Clone
K9 = ["vec", "slice", "sliceMut", "ref", "refMut", "ptr", "ptrMut", "iter", "iterMut"]
GEN_TY = {"vec": "QVec", "slice": "QSlice<'static>", "sliceMut": "QSliceMut<'static>", "ref": "QRef<'static>", "refMut": "QRefMut<'static>",
          "ptr": "QPtr", "ptrMut": "QPtrMut", "iter": "QIter<'static>", "iterMut": "QIterMut<'static>"}
STD_TY = {"vec": "Vec<Q>", "slice": "&'static [Q]", "sliceMut": "&'static mut [Q]", "ref": "&'static Q", "refMut": "&'static mut Q",
          "ptr": "*const Q", "ptrMut": "*mut Q", "iter": "std::slice::Iter<'static, Q>", "iterMut": "std::slice::IterMut<'static, Q>"}


def auto_program(payload, nested):
    name, ty, _, _ = payload
    nested_def = f"#[derive(StructOfArray)]\npub struct M {{ pub w: {ty}, pub z: u8 }}\n" if nested else ""
    field = "#[nested_soa] pub m: M," if nested else f"pub w: {ty},"
    rows = []
    for k in K9:
        rows.append(f'    println!("A {k} {{}}{{}} {{}}{{}} copy={{}}", b(impls!({GEN_TY[k]}: Send)), b(impls!({GEN_TY[k]}: Sync)), '
                    f'b(impls!({STD_TY[k]}: Send)), b(impls!({STD_TY[k]}: Sync)), b(impls!({GEN_TY[k]}: Copy)));')
    return f"""#![allow(dead_code, unused_imports)]
#[macro_use] extern crate soa_derive;
use soa_derive::StructOfArray;
{nested_def}
#[derive(StructOfArray)]
pub struct Q {{ pub a: u32, {field} }}
macro_rules! impls {{ ($t:ty : $($tr:tt)+) => {{{{
    trait No {{ const V: bool = false; }}
    impl<T: ?Sized> No for T {{}}
    struct W<T: ?Sized>(std::marker::PhantomData<T>);
    #[allow(dead_code)] impl<T: ?Sized + $($tr)+> W<T> {{ const V: bool = true; }}
    <W<$t>>::V
}}}} }}
#[derive(Clone)] pub struct NoSend(*const u8);
unsafe impl Sync for NoSend {{}}
fn b(x: bool) -> u8 {{ x as u8 }}
fn main() {{
{chr(10).join(rows)}
}}
"""
