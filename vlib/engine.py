"""Correspondence engine: run scenario streams through the real code (harness), the std
mirror and the Lean model/spec driver; compare three ways; monitors; minimisation."""
import collections, json, os, time
from .common import *


class Failure:
    """a monitor failure (the property observed failing on the real code)"""
    def __init__(self, scenario, profile, step, what, key, obs=None):
        self.scenario, self.profile, self.step, self.what, self.key, self.obs = scenario, profile, step, what, key, obs or {}
    def __repr__(self):
        return f"<{self.key} {self.scenario.shape} step {self.step}: {self.what}>"


def pair_lines(lines):
    """[I0,S0,I1,S1,...,Iend,Send] -> [(I,S)] parsed"""
    I = [parse_obs(l) for l in lines if l.startswith("I ")]
    S = [parse_obs(l) for l in lines if l.startswith("S ")]
    return list(zip(I, S))


# ------------------------------------------------------------------ monitors
# A monitor looks at the harness transcript only (generated code vs real std mirror); it never
# involves the model.  It returns Failures; `key` classifies the failure for known-finding matching.

def op_of(sc, step):
    try:
        return sc.lines[int(step)].split()[0]
    except Exception:
        return "end"


def mon_c01(sc, prof, pairs):
    """same panic flag, same returned value, same visits, same contents as Vec<T>"""
    out = []
    for i, s in pairs:
        if i["step"] == "end": continue
        op = op_of(sc, i["step"])
        if "panic=" in sc.lines[int(i["step"])]:
            continue  # callback panics: C16's abstraction, not state equality
        for f in ("status", "ret", "vis", "regs"):
            if i.get(f) != s.get(f):
                out.append(Failure(sc, prof, i["step"], f"{f}: soa={i.get(f)} std={s.get(f)}", f"C01:{op}:{f}", {"I": i["raw"], "S": s["raw"]}))
                break
    return out


def lockstep_ok(regs):
    for cols in regs:
        if len({len(c) for c in cols}) > 1:
            return False
    return True


def aligned_ok(regs, kinds):
    """position i of every (non zero-sized) leaf holds a field of the same logical element,
    and leaf j holds field j"""
    for cols in regs:
        n = min((len(c) for c in cols), default=0)
        for p in range(n):
            tagset = set()
            for j, c in enumerate(cols):
                if kinds[j] == "z": continue
                if c[p] % 8 != j: return False
                tagset.add(c[p] // 8)
            if len(tagset) > 1: return False
    return True


def kinds_of(shape):
    d = shape_descs()[shape].split()[3:]
    return [t for t in d if t in "zbslhp"]


CALLBACK_WRITES = ("retain_mut",)

def rows_of(cols):
    n = min((len(c) for c in cols), default=0)
    return sorted(tuple(c[p] for c in cols) for p in range(n))


def mon_c02(sc, prof, pairs):
    """lockstep after every step; position i holds fields of one logical element (tag check, or — once a
    user callback has overwritten a field — the rows as a multiset against the Vec<T> mirror);
    an argument panic leaves the container exactly as it was"""
    out = []
    kinds = kinds_of(sc.shape)
    prev = None
    user_wrote = False
    cb_panicked = False
    for i, s in pairs:
        if i["step"] == "end": continue
        op = op_of(sc, i["step"])
        line = sc.lines[int(i["step"])]
        if "wleaf" in line or line.startswith(("viewmut", "itermut", "ptrw")): user_wrote = True
        if "panic=" in line: cb_panicked = True
        if i.get("regs", "~") == "~": continue
        regs = parse_regs(i["regs"])
        if not lockstep_ok(regs):
            out.append(Failure(sc, prof, i["step"], f"field arrays out of lockstep: {i['regs']}", f"C02:{op}:lockstep", {"I": i["raw"]}))
        elif not user_wrote and not aligned_ok(regs, kinds):
            out.append(Failure(sc, prof, i["step"], f"position holds fields of different elements: {i['regs']}", f"C02:{op}:aligned", {"I": i["raw"]}))
        elif user_wrote and not cb_panicked and [rows_of(c) for c in regs] != [rows_of(c) for c in parse_regs(s["regs"])]:
            out.append(Failure(sc, prof, i["step"], f"rows differ from the mirror's rows: {i['regs']} vs {s['regs']}", f"C02:{op}:aligned", {"I": i["raw"], "S": s["raw"]}))
        if i["status"] == "panic" and "panic=" not in line and op not in ("unwind_drop", "extend_boom") and prev is not None and not sc.meta_clonefuse(int(i["step"])):
            if i["regs"] != prev:
                out.append(Failure(sc, prof, i["step"], f"argument panic changed the container: before={prev} after={i['regs']}", f"C02:{op}:atomic", {"I": i["raw"]}))
        prev = i["regs"]
    return out


def mon_c03(sc, prof, pairs):
    """exactly-once ownership: the ledger never saw a second drop and nothing is left alive"""
    out = []
    for i, s in pairs:
        if i["step"] != "end": continue
        if i.get("double_drop") != "false" or i.get("leak") != "false":
            # attribute to the first step whose drop multiset contains a duplicate, if any
            culprit = "end"
            seen = collections.Counter()
            made = None
            for j, _ in pairs:
                if j["step"] == "end": break
                evs = [e for e in parse_ev(j.get("ev", "[]")) + parse_ev(j.get("rev", "[]")) if e.startswith("d") and e != "dz"]
                c = collections.Counter(evs)
                if any(v > 1 for v in c.values()):
                    culprit = j["step"]; break
            op = op_of(sc, culprit)
            out.append(Failure(sc, prof, culprit, f"ledger: double_drop={i.get('double_drop')} leak={i.get('leak')}", f"C03:{op}:ledger", {"I": i["raw"]}))
    return out


def mon_c08(sc, prof, pairs):
    """struct destructor runs (`T<id>`; `N`: a nested struct's own destructor): same multiset per step as Vec<T>"""
    out = []
    for i, s in pairs:
        # (a pointer write reports the events of the write itself inside its result: `written:<old>:wev=[...]`)
        def wev(o):
            m = re.search(r"wev=(\[[^\]]*\])", o.get("ret", "") or "")
            return parse_ev(m.group(1)) if m else []
        ti = sorted(e for e in parse_ev(i.get("ev", "[]")) + parse_ev(i.get("rev", "[]")) + wev(i) if e.startswith("T") or e == "N")
        ts = sorted(e for e in parse_ev(s.get("ev", "[]")) + parse_ev(s.get("rev", "[]")) + wev(s) if e.startswith("T") or e == "N")
        if ti != ts:
            op = op_of(sc, i["step"])
            out.append(Failure(sc, prof, i["step"], f"struct destructor runs: soa={ti} std={ts}", f"C08:{op}:dropT", {"I": i["raw"], "S": s["raw"]}))
    return out


def mon_c04(sc, prof, pairs):
    """accessors: Some/None and panic exactly as std's get/index, same elements in every field, in bounds"""
    out = []
    for i, s in pairs:
        if i["step"] == "end": continue
        line = sc.lines[int(i["step"])]
        w = line.split()
        if w[0] not in ("get", "index"): continue
        key = f"C04:{w[0]}:{w[4]}"
        if i["status"] != s["status"] or i.get("ret") != s.get("ret"):
            out.append(Failure(sc, prof, i["step"], f"{line}: soa={i['status']} {i.get('ret')} std={s['status']} {s.get('ret')}", key + ":agree", {"I": i["raw"], "S": s["raw"]}))
        elif i.get("inb", "true") != "true":
            out.append(Failure(sc, prof, i["step"], f"{line}: reference outside the initialised part of a field array", key + ":inbounds", {"I": i["raw"]}))
    return out


def mon_c09(sc, prof, pairs):
    """trait dispatch: same result / panic / contents as Vec<T> (hence as the inherent API, C01);
    range-bounds slicing selects what std indexing with the same bounds selects"""
    out = []
    for i, s in pairs:
        if i["step"] == "end": continue
        line = sc.lines[int(i["step"])]
        w = line.split()
        trait_sort = (w[0] == "sort" and len(w) > 2 and w[2].startswith(("tsm_", "tvec_"))) or w[0] in ("apply_index", "apply_index_reuse")
        if w[0] == "tcapacity" and i.get("parity", "").startswith("false"):
            out.append(Failure(sc, prof, i["step"], f"{line}: the SoAVec trait answers {i.get('ret')} where the inherent capacity() answers {i['parity'].split(':')[-1]}", "C09:tcapacity:parity", {"I": i["raw"]}))
        if not (w[0].startswith("t") and (w[0][1:] in ("push", "pop", "insert", "remove", "swap_remove", "replace", "truncate", "clear", "append", "split_off", "new", "get", "len")) or w[0] == "bounds" or trait_sort):
            continue
        sub = w[0] if w[0] != "tget" else f"tget:{w[3]}"
        if trait_sort: sub = f"{w[0]}:{w[2]}"
        for f in ("status", "ret", "regs"):
            if i.get(f) != s.get(f):
                out.append(Failure(sc, prof, i["step"], f"{line}: {f}: soa={i.get(f)} std={s.get(f)}", f"C09:{sub}:{f}", {"I": i["raw"], "S": s["raw"]}))
                break
        else:
            # "same effect": the values destroyed and the struct destructors run by the call, as multisets
            ei, es = sorted(parse_ev(i.get("ev", "[]"))), sorted(parse_ev(s.get("ev", "[]")))
            if ei != es:
                out.append(Failure(sc, prof, i["step"], f"{line}: effects: soa={ei} std={es}", f"C09:{sub}:ev", {"I": i["raw"], "S": s["raw"]}))
            elif i.get("inb", "true") != "true":
                out.append(Failure(sc, prof, i["step"], f"{line}: view outside the initialised part", f"C09:{sub}:inbounds", {"I": i["raw"]}))
    return out


def mon_c12(sc, prof, pairs):
    """capacity() never panics, returns c >= len, the promised pushes move no field array;
    reserving / shrinking never change the contents"""
    out = []
    for i, s in pairs:
        if i["step"] == "end": continue
        line = sc.lines[int(i["step"])]
        w = line.split()
        op = w[0]
        if op in ("treserve", "treserve_exact", "tshrink_to_fit", "tcapacity", "twith_capacity"): op = op[1:]   # through the SoAVec trait
        if i.get("parity", "").startswith("false"):
            out.append(Failure(sc, prof, i["step"], f"{line}: the SoAVec trait answers {i.get('ret')} where the inherent capacity() answers {i['parity'].split(':')[-1]}", "C12:tcapacity:parity", {"I": i["raw"]}))
        if op == "capacity" and i["status"] != "ok":
            out.append(Failure(sc, prof, i["step"], f"capacity() panicked", "C12:capacity:panic", {"I": i["raw"]}))
        if op == "promise":
            if i["status"] != "ok":
                out.append(Failure(sc, prof, i["step"], f"{line}: panicked (capacity() or push)", "C12:promise:panic", {"I": i["raw"]}))
            elif i.get("cap_ge_len") != "true":
                out.append(Failure(sc, prof, i["step"], f"{line}: capacity() < len()", "C12:promise:cap_lt_len", {"I": i["raw"]}))
            elif i.get("moved") != "false":
                kind = "reserved" if len(w) > 2 else "capacity"
                out.append(Failure(sc, prof, i["step"], f"{line}: a field array moved during the promised pushes ({i.get('pushed')} pushed)", f"C12:promise:moved:{kind}", {"I": i["raw"]}))
        if op in ("reserve", "reserve_exact", "shrink_to_fit") and (i["status"] != s["status"] or i.get("regs") != s.get("regs")):
            out.append(Failure(sc, prof, i["step"], f"{line}: status / contents differ from Vec<T>: soa {i['status']} {i.get('regs')} vs std {s['status']} {s.get('regs')}", f"C12:{op}:contents", {"I": i["raw"], "S": s["raw"]}))
    return out


def _same(sc, prof, pairs, prop, ops, fields=("status", "ret", "regs"), extra=None):
    out = []
    for i, s in pairs:
        if i["step"] == "end": continue
        line = sc.lines[int(i["step"])]
        w = line.split()
        if w[0] not in ops: continue
        sub = w[0] + (":" + w[2] if w[0] in ("sort", "refs", "iter", "itermut") and len(w) > 2 else "")
        for f in fields:
            if i.get(f) != s.get(f):
                out.append(Failure(sc, prof, i["step"], f"{line}: {f}: soa={str(i.get(f))[:300]} std={str(s.get(f))[:300]}", f"{prop}:{sub}:{f}", {"I": i["raw"], "S": s["raw"]}))
                break
        else:
            if extra:
                m = extra(line, i, s)
                if m: out.append(Failure(sc, prof, i["step"], f"{line}: {m}", f"{prop}:{sub}:extra", {"I": i["raw"], "S": s["raw"]}))
    return out


def mon_c05(sc, prof, pairs):
    """views cover what the std slice operation covers and panic when std panics; a write through a mutable
    view changes exactly the addressed field of the addressed element of the parent (whole parent compared)"""
    return _same(sc, prof, pairs, "C05", ("view", "viewmut"))


def mon_c06(sc, prof, pairs):
    """iterators: yields, len and size_hint after every step as std's slice iterators; writes land in the yielded element"""
    return _same(sc, prof, pairs, "C06", ("iter", "itermut"))


def mon_c07(sc, prof, pairs):
    """sorting / apply_index: result equals std's stable sort / the gather of the mirror, all fields by one permutation"""
    def extra(line, i, s):
        regs = parse_regs(i["regs"])
        if not lockstep_ok(regs): return "fields out of lockstep after reordering"
        return None
    out = _same(sc, prof, pairs, "C07", ("sort", "apply_index", "swap"), fields=("status", "regs"), extra=extra)
    # a named mutable slice reordered through the trait still covers its elements afterwards (length, iteration)
    return out + _same(sc, prof, pairs, "C07", ("apply_index_reuse",), fields=("status", "ret", "regs"), extra=extra)


def mon_c10(sc, prof, pairs):
    """pointer bundles: designate base+offset in every field, read/write/as_ref touch that element only,
    null iff a component is null, a pointer write destroys nothing, round trips are the identity"""
    def extra(line, i, s):
        m = re.search(r"wev=(\[[^\]]*\])", i.get("ret", ""))
        if m and m.group(1) != "[]": return f"the pointer write destroyed something: {m.group(1)}"
        return None
    return _same(sc, prof, pairs, "C10", ("ptr", "ptrw", "roundtrip"), extra=extra)


def mon_c15(sc, prof, pairs):
    """element references: conversions are value-preserving (ids, clone events), replace swaps exactly one element"""
    return _same(sc, prof, pairs, "C15", ("refs", "refreplace", "extend_refs", "extend_refs_f"), fields=("status", "ret", "rev", "ev", "regs"))


MONITORS = {"C05": mon_c05, "C06": mon_c06, "C07": mon_c07, "C10": mon_c10, "C15": mon_c15, "C12": mon_c12, "C09": mon_c09, "C04": mon_c04, "C01": mon_c01, "C02": mon_c02, "C03": mon_c03, "C08": mon_c08}


def _meta_clonefuse(self, step):
    """is a clone fuse armed before this step (then a panic is a user-callback panic, not an argument panic)"""
    return any(l.startswith("clonefuse") for l in self.lines[:step])
Scenario.meta_clonefuse = _meta_clonefuse


# ------------------------------------------------------------------ suite

class SuiteResult:
    def __init__(self):
        self.failures = []          # monitor failures
        self.tie_mismatch = []      # (scenario, profile, impl line, model line)
        self.std_mismatch = []      # (scenario, std mirror line, spec line)
        self.evaluations = 0
        self.steps = 0
        self.distinct = set()
        self.hist_ops = collections.Counter()
        self.hist_status = collections.Counter()
        self.hist_shapes = collections.Counter()
        self.hist_len = collections.Counter()
        self.traces_validated = 0
        self.samples = []


def run_suite(prop, scenarios, profiles, monitors, tag="suite", compare_model=True):
    os.makedirs(os.path.join(WORK, prop), exist_ok=True)
    path = os.path.join(WORK, prop, f"{tag}.scn")
    write_scenarios(path, scenarios)
    res = SuiteResult()
    for prof in profiles:
        model = run_model(path, prof) if compare_model else None
        impl = run_harness(prof, path)
        if len(impl) != len(scenarios):
            raise BuildError(f"harness transcript has {len(impl)} scenarios, expected {len(scenarios)}")
        if model is not None and len(model) != len(scenarios):
            raise BuildError(f"model transcript has {len(model)} scenarios, expected {len(scenarios)}")
        for k, sc in enumerate(scenarios):
            lines = impl[k]
            pairs = pair_lines(lines)
            res.evaluations += 1
            res.steps += len(pairs)
            for mon in monitors:
                res.failures += mon(sc, prof, pairs)
            if model is not None:
                ml = model[k]
                ok = True
                for a, b in zip(lines, ml):
                    if a != b:
                        if a.startswith("I "):
                            res.tie_mismatch.append((sc, prof, a, b)); ok = False
                        else:
                            res.std_mismatch.append((sc, a, b)); ok = False
                        break
                if len(lines) != len(ml) and ok:
                    res.tie_mismatch.append((sc, prof, f"<{len(lines)} lines>", f"<{len(ml)} lines>")); ok = False
                if ok: res.traces_validated += 1
            # distribution
            if prof == profiles[0]:
                res.hist_shapes[sc.shape] += 1
                nontrivial = False
                for i, s in pairs:
                    if i["step"] == "end": continue
                    op = op_of(sc, i["step"])
                    res.hist_ops[op] += 1
                    res.hist_status[f"{op}:{i['status']}"] += 1
                    try:
                        if s.get("regs", "~") == "~": raise ValueError
                        regs = parse_regs(s["regs"])
                        res.hist_len[max(len(c[0]) if c else 0 for c in regs)] += 1
                        if any(c and len(c[0]) > 0 for c in regs): nontrivial = True
                    except Exception:
                        pass
                if nontrivial:
                    res.distinct.add(sc.key())
                if len(res.samples) < 3 and k % max(1, len(scenarios) // 3) == 0:
                    res.samples.append({"shape": sc.shape, "ops": sc.lines[:12], "first_observation": lines[0] if lines else ""})
    return res


def run_profile_diff(prop, scenarios, tag="profiles"):
    """C17: the same scenario file through the debug and the release harness; the transcripts of the
    generated code (I lines) are compared line by line; each is also compared with the model under its profile"""
    os.makedirs(os.path.join(WORK, prop), exist_ok=True)
    path = os.path.join(WORK, prop, f"{tag}.scn")
    write_scenarios(path, scenarios)
    res = SuiteResult()
    tr = {p: run_harness(p, path) for p in ("debug", "release")}
    md = {p: run_model(path, p) for p in ("debug", "release")}
    for k, sc in enumerate(scenarios):
        d, r = tr["debug"][k], tr["release"][k]
        res.evaluations += 2
        res.steps += len(d)
        for a, b in zip(d, r):
            if a != b and a.startswith("I "):
                step = a.split()[1]
                res.failures.append(Failure(sc, "release", step, f"debug: {a[:200]} | release: {b[:200]}", f"C17:{op_of(sc, step)}:diff", {"debug": a, "release": b}))
                break
        ok = True
        for p in ("debug", "release"):
            for a, b in zip(tr[p][k], md[p][k]):
                if a != b:
                    (res.tie_mismatch if a.startswith("I ") else res.std_mismatch).append((sc, p, a, b) if a.startswith("I ") else (sc, a, b))
                    ok = False
                    break
        if ok: res.traces_validated += 2
        res.hist_shapes[sc.shape] += 1
        for l in sc.lines: res.hist_ops[l.split()[0]] += 1
        if len(sc.lines) > 1: res.distinct.add(sc.key())
        if len(res.samples) < 3 and k % max(1, len(scenarios) // 3) == 0:
            res.samples.append({"shape": sc.shape, "ops": sc.lines[:10], "debug": d[1][:160] if len(d) > 1 else "", "release": r[1][:160] if len(r) > 1 else ""})
    return res


def run_twin_diff(prop, pairs_of_scenarios, profiles=("debug",), tag="twins"):
    """C11: the same operation lines on a nested shape and on its flattened twin (leaf ids are numbered in
    declaration order in both, so the transcripts must be identical line by line, leaf arrays included)"""
    os.makedirs(os.path.join(WORK, prop), exist_ok=True)
    res = SuiteResult()
    nested = [a for a, b in pairs_of_scenarios]
    flat = [b for a, b in pairs_of_scenarios]
    pn = os.path.join(WORK, prop, f"{tag}-nested.scn"); pf = os.path.join(WORK, prop, f"{tag}-flat.scn")
    write_scenarios(pn, nested); write_scenarios(pf, flat)
    for prof in profiles:
        tn, tf = run_harness(prof, pn), run_harness(prof, pf)
        mn = run_model(pn, prof)
        for k, (a, b) in enumerate(pairs_of_scenarios):
            res.evaluations += 2
            res.steps += len(tn[k])
            kinds = kinds_of(a.shape)
            for x, y in zip(tn[k], tf[k]):
                if x.startswith("I ") and x != y:
                    step = x.split()[1]
                    res.failures.append(Failure(a, prof, step, f"nested {a.shape}: {x[:220]} | flattened {b.shape}: {y[:220]}", f"C11:{op_of(a, step)}:twin", {"nested": x, "flat": y}))
                    break
                if x.startswith("I ") and "regs=" in x:
                    o = parse_obs(x)
                    if o.get("regs", "~") != "~" and not lockstep_ok(parse_regs(o["regs"])):
                        res.failures.append(Failure(a, prof, o["step"], f"a leaf array of a nested container has another length: {o['regs']}", f"C11:{op_of(a, o['step'])}:lockstep", {"nested": x}))
                        break
            ok = True
            for x, y in zip(tn[k], mn[k]):
                if x != y:
                    (res.tie_mismatch if x.startswith("I ") else res.std_mismatch).append((a, prof, x, y) if x.startswith("I ") else (a, x, y))
                    ok = False
                    break
            if ok: res.traces_validated += 1
            res.hist_shapes[a.shape] += 1
            for l in a.lines: res.hist_ops[l.split()[0]] += 1
            if len(a.lines) > 1: res.distinct.add(a.key())
            if len(res.samples) < 3 and k % max(1, len(pairs_of_scenarios) // 3) == 0:
                res.samples.append({"nested": a.shape, "flat": b.shape, "ops": a.lines[:8], "nested_obs": tn[k][2][:160] if len(tn[k]) > 2 else ""})
    return res


def still_twin_differs(prop, sc):
    twin = dict([("NFirst", "NFirstF"), ("NMid", "NMidF"), ("NLast", "NLastF"), ("Deep", "DeepF")]).get(sc.shape)
    if twin is None: return None
    r = run_twin_diff(prop, [(sc, Scenario(twin, sc.lines, sc.tag))], tag="min")
    return r.failures[0] if r.failures else None


def mon_c16(sc, prof, pairs):
    """after a panic inside a user callback / user trait impl: every container in lockstep, no value lost or
    duplicated (the rows are a permutation of the rows before, whole elements), and at the very end the ledger is clean"""
    out = []
    kinds = kinds_of(sc.shape)
    prev = None
    wrote = False
    after_fault = False
    for i, s in pairs:
        if i["step"] == "end":
            if i.get("double_drop") != "false" or i.get("leak") != "false":
                out.append(Failure(sc, prof, "end", f"ledger after the fault and the final drop: double_drop={i.get('double_drop')} leak={i.get('leak')}", "C16:end:ledger", {"I": i["raw"]}))
            continue
        line = sc.lines[int(i["step"])]
        op = line.split()[0]
        if "wleaf" in line: wrote = True
        if i["status"] == "abort":
            out.append(Failure(sc, prof, i["step"], f"{line}: the process aborted ({i.get('cause', '?')}): the panic of the user code could not be caught "
                               f"(a second panic while the half-built / half-updated container was being dropped)", f"C16:{op}:abort", {"I": i["raw"]}))
            break
        faulty = ("panic=" in line) or (int(i["step"]) > 0 and sc.lines[int(i["step"]) - 1].split()[0] in ("clonefuse", "cmpfuse"))
        # "can be used normally": once a panic of user code was caught, the operations that follow (none of which can
        # panic on a coherent container: len, push, pop, retain, sorts with callbacks that do not panic) must not panic
        if after_fault and not faulty and op not in ("clonefuse", "cmpfuse") and i["status"] == "panic":
            out.append(Failure(sc, prof, i["step"], f"{line}: panics after an earlier panic of user code was caught (std: {s.get('status')})", f"C16:{op}:after-fault", {"I": i["raw"], "S": s["raw"]}))
            break
        if faulty and i["status"] == "panic": after_fault = True
        if i.get("regs", "~") == "~": continue
        regs = parse_regs(i["regs"])
        if not lockstep_ok(regs):
            out.append(Failure(sc, prof, i["step"], f"{line}: field arrays out of lockstep: {i['regs']}", f"C16:{op}:lockstep", {"I": i["raw"]}))
            break
        if not wrote and not aligned_ok(regs, kinds):
            out.append(Failure(sc, prof, i["step"], f"{line}: a position holds fields of different elements: {i['regs']}", f"C16:{op}:aligned", {"I": i["raw"]}))
            break
        if faulty and i["status"] == "panic" and prev is not None and op in ("retain", "retain_mut", "sort", "refs", "to_vec", "to_vec_sm", "to_vec_ts", "to_vec_tsm"):
            before = sorted(r for c in parse_regs(prev) for r in rows_of(c)); after = sorted(r for c in regs for r in rows_of(c))
            if not wrote and before != after:
                out.append(Failure(sc, prof, i["step"], f"{line}: elements lost or duplicated by the caught panic: before={prev} after={i['regs']}", f"C16:{op}:elements", {"I": i["raw"]}))
                break
            if len(before) != len(after):
                # (the callback wrote to elements, so their tags changed; their number cannot)
                out.append(Failure(sc, prof, i["step"], f"{line}: the number of elements changed across the caught panic: before={prev} after={i['regs']}", f"C16:{op}:count", {"I": i["raw"]}))
                break
        prev = i["regs"]
    return out


def mon_c17(sc, prof, pairs):
    return []


MONITORS["C16"] = mon_c16


def mon_c19(sc, prof, pairs):
    """on a desynchronised container every safe method panics, returns None, or returns data within the
    initialised part of every field array (inb), never aborts the process through std's UB checks, and nothing
    is destroyed twice (ledger, final drop included)"""
    out = []
    after = False
    for i, s in pairs:
        if i["step"] == "end":
            if i.get("double_drop") == "true":
                line = "; ".join(sc.lines[2:])
                out.append(Failure(sc, prof, "end", f"{line}: a value was destroyed twice", f"C19:{sc.lines[2].split()[0] if len(sc.lines) > 2 else 'end'}:double_drop", {"I": i["raw"]}))
            continue
        line = sc.lines[int(i["step"])]
        op = line.split()[0]
        if op == "desync": after = True; continue
        if not after: continue
        sub = op + (":" + line.split()[4] if op in ("get", "index") and len(line.split()) > 4 else "")
        if i["status"] == "abort" and i.get("cause") == "ubcheck":
            out.append(Failure(sc, prof, i["step"], f"{line}: an unchecked out-of-bounds access was executed (caught by std's debug check of the unsafe precondition, which aborts the process)", f"C19:{sub}:ubcheck", {"I": i["raw"]}))
        elif i.get("overfull") == "true":
            out.append(Failure(sc, prof, i["step"], f"{line}: a field array now holds more elements than its allocation (something was written past its end)", f"C19:{sub}:overfull", {"I": i["raw"]}))
        elif i.get("inb", "true") != "true":
            out.append(Failure(sc, prof, i["step"], f"{line}: returned a reference beyond a field array's length", f"C19:{sub}:oob", {"I": i["raw"]}))
    return out


MONITORS["C19"] = mon_c19


def still_differs(prop, sc):
    path = os.path.join(WORK, prop, "min.scn")
    write_scenarios(path, [sc])
    try:
        d = run_harness("debug", path)[0]; r = run_harness("release", path)[0]
    except BuildError:
        return None
    for a, b in zip(d, r):
        if a != b and a.startswith("I "):
            step = a.split()[1]
            return Failure(sc, "release", step, f"debug: {a[:200]} | release: {b[:200]}", f"C17:{op_of(sc, step)}:diff", {"debug": a, "release": b})
    return None


# ------------------------------------------------------------------ minimisation (delta debugging on the op list)

def still_fails(prop, sc, prof, monitors, key):
    if key.startswith("C17:"):
        return still_differs(prop, sc)
    if key.startswith("C11:"):
        return still_twin_differs(prop, sc)
    path = os.path.join(WORK, prop, "min.scn")
    write_scenarios(path, [sc])
    try:
        impl = run_harness(prof, path)
    except BuildError:
        return False
    pairs = pair_lines(impl[0])
    from .decide import match_known
    findings = load_findings()
    for mon in monitors:
        for f in mon(sc, prof, pairs):
            if f.key == key and not match_known(f, findings, key.split(":")[0]):
                return f
    return None


# operations that establish the precondition under which a later step is judged: a minimised scenario must keep them
# (a `promise` is only a promise after the reservation that made it)
PROTECTED_OPS = {"C12": {"reserve", "reserve_exact", "with_capacity", "treserve", "treserve_exact", "twith_capacity"}}


def minimise(prop, failure, monitors, budget=200):
    sc = failure.scenario
    best = failure
    lines = list(sc.lines)
    protected = PROTECTED_OPS.get(prop, set())
    n = 2
    runs = 0
    while len(lines) >= 2 and runs < budget:
        chunk = max(1, len(lines) // n)
        reduced = False
        for start in range(0, len(lines), chunk):
            cand = lines[:start] + [l for l in lines[start:start + chunk] if l.split()[0] in protected] + lines[start + chunk:]
            if not cand or len(cand) == len(lines): continue
            runs += 1
            f = still_fails(prop, Scenario(sc.shape, cand, sc.tag), failure.profile, monitors, failure.key)
            if f:
                lines, best, reduced = cand, f, True
                n = max(n - 1, 2)
                break
        if not reduced:
            if chunk == 1: break
            n = min(len(lines), n * 2)
    return best
