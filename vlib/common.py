"""Shared machinery of /verif/bin/check: builds, runs, comparison, decision, evidence."""
import fcntl, hashlib, json, os, re, subprocess, sys, time

VERIF = os.path.dirname(os.path.dirname(os.path.abspath(__file__)))
REPO = "/repo"
WORK = os.path.join(VERIF, "work")
LEAN = os.path.join(VERIF, "lean")
HARNESS = os.path.join(VERIF, "harness")
EXTRACT = os.path.join(VERIF, "extract")
MODEL_BIN = os.path.join(LEAN, ".lake", "build", "bin", "soa-model")
ALLOWED_AXIOMS = {"propext", "Classical.choice", "Quot.sound"}
MAX = 18446744073709551615

ENV = dict(os.environ, CARGO_NET_OFFLINE="true", CARGO_TERM_COLOR="never")


class BuildError(Exception):
    pass


def log(msg):
    print(f"[check] {msg}", flush=True)


class Lock:
    """serialises cargo / lake builds so checks may be started concurrently"""
    def __init__(self, name="build"):
        os.makedirs(WORK, exist_ok=True)
        self.path = os.path.join(WORK, f".{name}.lock")
    def __enter__(self):
        self.f = open(self.path, "w")
        fcntl.flock(self.f, fcntl.LOCK_EX)
        return self
    def __exit__(self, *a):
        fcntl.flock(self.f, fcntl.LOCK_UN)
        self.f.close()


TIMED_OUT = -999

def run(cmd, cwd=None, timeout=3600, input=None, env=None, soft=False):
    """soft=True: a timeout is an outcome (rc TIMED_OUT, the output so far), not an exception"""
    try:
        p = subprocess.run(cmd, cwd=cwd, capture_output=True, text=True, timeout=timeout, input=input, env=env or ENV)
    except subprocess.TimeoutExpired as e:
        if not soft: raise
        dec = lambda b: b.decode("utf-8", "replace") if isinstance(b, bytes) else (b or "")
        return TIMED_OUT, dec(e.stdout), dec(e.stderr) + "\nTIMEOUT"
    return p.returncode, p.stdout, p.stderr


# ---------------------------------------------------------------- builds

def harness_bin(profile):
    return os.path.join(HARNESS, "target", "release" if profile == "release" else "debug", "soa-harness")


def build_harness(profile):
    """build the harness against /repo's current working tree"""
    with Lock():
        lockfile = os.path.join(HARNESS, "Cargo.lock")
        if not os.path.exists(lockfile):
            subprocess.run(["cp", os.path.join(REPO, "Cargo.lock"), lockfile], check=True)
        cmd = ["cargo", "build", "--offline", "--quiet"] + (["--release"] if profile == "release" else [])
        rc, out, err = run(cmd, cwd=HARNESS)
        if rc != 0:
            raise BuildError(f"harness ({profile}) does not build against /repo:\n{err[-4000:]}")
    return harness_bin(profile)


def extract():
    """translate: run the translator against /repo's current generator sources; regenerate
    Soa/Extracted/*.lean and the generated proof scripts (files are rewritten only when changed)"""
    with Lock():
        lockfile = os.path.join(EXTRACT, "Cargo.lock")
        if not os.path.exists(lockfile):
            subprocess.run(["cp", os.path.join(REPO, "Cargo.lock"), lockfile], check=True)
        rc, out, err = run(["cargo", "run", "--offline", "--quiet", "--", os.path.join(LEAN, "Soa", "Extracted")], cwd=EXTRACT)
        if rc != 0:
            raise BuildError(f"translator does not build/run against /repo:\n{err[-4000:]}")
        from . import idxproofs
        idxproofs.generate(LEAN)
    h = hashlib.sha1()
    d = os.path.join(LEAN, "Soa", "Extracted")
    for f in sorted(os.listdir(d)):
        h.update(open(os.path.join(d, f), "rb").read())
    return h.hexdigest()[:12]


def lake_build(targets):
    """lake build; returns (ok, log). The log of cached modules is replayed by lake."""
    with Lock():
        rc, out, err = run(["lake", "build"] + targets, cwd=LEAN, timeout=3600)
    return rc == 0, out + err


_shape_descs = None

def shape_descs():
    """shape name -> descriptor line, read from the built harness (so the Lean model sees the real shapes)"""
    global _shape_descs
    if _shape_descs is None:
        rc, out, err = run([harness_bin("debug"), "shapes"])
        if rc != 0:
            raise BuildError("harness 'shapes' failed: " + err)
        _shape_descs = {l.split()[1]: l.strip() for l in out.splitlines() if l.startswith("shape ")}
    return _shape_descs


# ---------------------------------------------------------------- scenarios

class Scenario:
    __slots__ = ("shape", "lines", "tag")
    def __init__(self, shape, lines, tag=""):
        self.shape, self.lines, self.tag = shape, list(lines), tag
    def text(self):
        return shape_descs()[self.shape] + "\n" + "\n".join(self.lines) + "\n"
    def key(self):
        return self.shape + "|" + "|".join(self.lines)


def write_scenarios(path, scenarios):
    with open(path, "w") as f:
        for s in scenarios:
            f.write(s.text())


def split_transcript(text):
    """-> list of scenarios, each a list of lines (without the '# scenario' header)"""
    out = []
    for l in text.splitlines():
        if l.startswith("# scenario"):
            out.append([])
        elif out:
            out[-1].append(l)
    return out


BATCH_TIMEOUT, ONE_TIMEOUT, HANG_CAP, IDLE = 3600, 15, 3, 20
HANGS = [0]   # hangs seen by this check so far, over all suites, profiles and ranges

def run_watch(cmd, idle=IDLE, timeout=BATCH_TIMEOUT):
    """run with stdout in a file; a process that prints nothing for `idle` seconds (the harness prints a line per step) is
    killed and reported as TIMED_OUT together with what it had printed"""
    import tempfile
    with tempfile.TemporaryFile() as fo, tempfile.TemporaryFile() as fe:
        p = subprocess.Popen(cmd, stdout=fo, stderr=fe, env=ENV)
        t0 = last = time.time(); size = 0; rc = None
        while True:
            try:
                rc = p.wait(timeout=0.25); break
            except subprocess.TimeoutExpired:
                pass
            now = time.time(); sz = os.fstat(fo.fileno()).st_size
            if sz != size: size, last = sz, now
            if now - last > idle or now - t0 > timeout:
                p.kill(); p.wait(); rc = TIMED_OUT; break
        fo.seek(0); fe.seek(0)
        return rc, fo.read().decode("utf-8", "replace"), fe.read().decode("utf-8", "replace")[-20000:]

def run_harness(profile, scn_path, isolate=False):
    """run the scenario file on the real generated code; returns list of per-scenario line lists.
    If the process dies (debug builds: std's UB checks abort, they do not unwind) or does not come back (a call of the
    generated code that no longer terminates), the scenario at which that happened is re-run in its own process, line
    by line; the step that killed / hung it is reported as `I <step> abort ... cause=ubcheck|double-panic|timeout`.
    After HANG_CAP hangs in one check the remaining scenarios are reported as aborted without being run (each
    hang costs IDLE + ONE_TIMEOUT seconds; the check has to stay a check one can run on every change)."""
    n = sum(1 for l in open(scn_path) if l.startswith("shape "))
    def run_range(lo, hi):
        result = []
        start = lo
        err = ""
        while start < hi:
            if HANGS[0] >= HANG_CAP:
                result += [[f"I end abort double_drop=false leak=false cause=skipped-after-{HANG_CAP}-hangs", "S end abort double_drop=false leak=false"]
                           for _ in range(start, hi)]
                break
            rc, out, err = run_watch([harness_bin(profile), "run", scn_path, str(start), str(hi)])
            got = split_transcript(out)
            if rc == 0:
                result += got
                break
            # the process died in scenario `start + complete`: keep the complete ones, re-run the fatal one live
            complete = [g for g in got if any(l.startswith("I end") for l in g)]
            result += complete
            k = start + len(complete)
            if k >= hi: break
            rc1, out1, err1 = run([harness_bin(profile), "run1", scn_path, str(k)], timeout=ONE_TIMEOUT, soft=True)
            if rc1 == TIMED_OUT: HANGS[0] += 1
            lines = [l for l in out1.splitlines() if not l.startswith("# scenario")]
            steps = [l for l in lines if l.startswith("# step")]
            step = steps[-1].split()[2] if steps else "0"
            lines = [l for l in lines if not l.startswith("# step")]
            if rc1 != 0:
                # two very different deaths: std's check of an unsafe precondition (an unchecked out-of-bounds access was
                # executed) vs a second panic while unwinding (e.g. the destructor of a desynchronised nested container)
                cause = "timeout" if rc1 == TIMED_OUT else "ubcheck" if "UBCHECK" in err1 else "double-panic"
                lines = [l for l in lines if l.split()[1] != step]
                if step != "end":
                    lines += [f"I {step} abort ret=- rev=[] ev=[] regs=~ cause={cause} signal={-rc1 if rc1 < 0 else rc1}", f"S {step} noabort ret=- rev=[] ev=[] regs=~"]
                lines += [f"I end abort double_drop=false leak=false cause={cause}", "S end abort double_drop=false leak=false"]
            result.append(lines)
            start = k + 1
        if len(result) != hi - lo:
            raise BuildError(f"harness transcript has {len(result)} scenarios for [{lo},{hi}), expected {hi - lo}: {err[-500:]}")
        return result
    if n < 400:
        return run_range(0, n)
    import concurrent.futures
    w = 16
    bounds = [(i * n // w, (i + 1) * n // w) for i in range(w)]
    with concurrent.futures.ThreadPoolExecutor(max_workers=w) as ex:
        parts = list(ex.map(lambda b: run_range(*b), bounds))
    return [sc for p in parts for sc in p]


def run_model(scn_path, prof="debug"):
    with open(scn_path) as f:
        data = f.read()
    rc, out, err = run([MODEL_BIN, prof], input=data, timeout=3600)
    if rc != 0:
        raise BuildError(f"soa-model failed rc={rc}: {err[-2000:]}")
    return split_transcript(out)


# ---------------------------------------------------------------- observation lines

_kv = re.compile(r"(\w+)=(\S+)")

def parse_obs(line):
    """'I 3 ok ret=- rev=[] ev=[d1] regs=...' -> dict"""
    w = line.split()
    d = {"side": w[0], "step": w[1], "status": w[2] if len(w) > 2 else "", "raw": line}
    for m in _kv.finditer(line):
        d[m.group(1)] = m.group(2)
    return d


def parse_cols(s):
    """'[[1,2],[3,4]]' -> [[1,2],[3,4]]"""
    return json.loads(s)


def parse_regs(s):
    return [parse_cols(x) for x in s.split(";")]


def parse_ev(s):
    s = s.strip("[]")
    return [x for x in s.split(",") if x]


# ---------------------------------------------------------------- proof step

FORBIDDEN = re.compile(r"\b(sorry|admit|native_decide|bv_decide|implemented_by|unsafe)\b|^\s*axiom\s|maxHeartbeats\s+0")

def strip_lean_comments(src):
    src = re.sub(r"/-.*?-/", "", src, flags=re.S)
    src = re.sub(r"--.*", "", src)
    return src


def source_audit(files):
    bad = []
    for p in files:
        src = strip_lean_comments(open(p).read())
        # string literals are data (e.g. the pinned Rust text of generated functions contains the word `unsafe`), not Lean code
        src = re.sub(r'"(?:[^"\\\n]|\\.)*"', '""', src)
        for n, l in enumerate(src.splitlines(), 1):
            if FORBIDDEN.search(l):
                bad.append(f"{os.path.relpath(p, VERIF)}: {l.strip()[:120]}")
    return bad


def theorem_names(path):
    src = strip_lean_comments(open(path).read())
    ns = []
    names = []
    for l in src.splitlines():
        m = re.match(r"\s*namespace\s+(\S+)", l)
        if m: ns.append(m.group(1))
        m = re.match(r"\s*end\s+(\S+)", l)
        if m and ns and ns[-1] == m.group(1): ns.pop()
        m = re.match(r"\s*(?:@\[[^\]]*\]\s*)?(?:protected\s+)?theorem\s+(\S+)", l)
        if m:
            names.append(".".join(ns + [m.group(1)]))
    return names


def lean_deps(module, seen=None):
    """project-local source files a module depends on (transitively)"""
    seen = seen if seen is not None else {}
    path = os.path.join(LEAN, module.replace(".", "/") + ".lean")
    if module in seen or not os.path.exists(path):
        return seen
    seen[module] = path
    for l in open(path):
        m = re.match(r"\s*import\s+(Soa\.\S+)", l)
        if m: lean_deps(m.group(1), seen)
    return seen


def prove(prop_id, modules):
    """translate, build the property's theorem modules, audit axioms.
    Returns dict with ok, obligations, discharged, failures[]"""
    t0 = time.time()
    res = {"modules": modules, "obligations": 0, "discharged": 0, "failures": [], "axioms": {}, "theorems": []}
    res["extraction_hash"] = extract()
    ok, blog = lake_build(modules + ["soa-model"])
    res["build_ok"] = ok
    if not ok:
        errs = [l for l in blog.splitlines() if "error" in l.lower()]
        res["failures"].append({"kind": "lake-build", "detail": errs[:20]})
    # which theorems exist (even if the build failed, so that obligations are counted)
    names = []
    for m in modules:
        names += theorem_names(os.path.join(LEAN, m.replace(".", "/") + ".lean"))
        # generated sub-modules of a property (Soa.Props.Cxx imports Soa.Props.CxxGen.*)
        for l in open(os.path.join(LEAN, m.replace(".", "/") + ".lean")):
            mm = re.match(r"\s*import\s+(Soa\.Props\.\w+Gen\.\w+)", l)
            if mm:
                names += [n for n in theorem_names(os.path.join(LEAN, mm.group(1).replace(".", "/") + ".lean")) if ".lit_" not in n]
    res["theorems"] = names
    res["obligations"] = len(names)
    deps = {}
    for m in modules:
        lean_deps(m, deps)
    bad = source_audit(list(deps.values()))
    if bad:
        res["failures"].append({"kind": "source-audit", "detail": bad[:20]})
    if ok and names:
        audit_dir = os.path.join(WORK, "audit")
        os.makedirs(audit_dir, exist_ok=True)
        ap = os.path.join(audit_dir, f"{prop_id}.lean")
        with open(ap, "w") as f:
            for m in modules: f.write(f"import {m}\n")
            for n in names: f.write(f"#print axioms {n}\n")
        rc, out, err = run(["lake", "env", "lean", ap], cwd=LEAN, timeout=1200)
        text = out + err
        # "'Name' depends on axioms: [a, b]" or "'Name' does not depend on any axioms"
        found = {}
        for m in re.finditer(r"'(\S+?)' depends on axioms: \[([^\]]*)\]", text.replace("\n", " ")):
            found[m.group(1)] = [a.strip() for a in m.group(2).split(",") if a.strip()]
        for m in re.finditer(r"'(\S+?)' does not depend on any axioms", text):
            found[m.group(1)] = []
        for n in names:
            if n not in found:
                res["failures"].append({"kind": "axiom-audit", "theorem": n, "detail": "no #print axioms output: " + text[-300:]})
                continue
            res["axioms"][n] = found[n]
            extra = set(found[n]) - ALLOWED_AXIOMS
            if extra:
                res["failures"].append({"kind": "axiom-audit", "theorem": n, "detail": f"disallowed axioms {sorted(extra)}"})
            else:
                res["discharged"] += 1
    res["wall_s"] = round(time.time() - t0, 1)
    res["ok"] = ok and not res["failures"]
    return res


# ---------------------------------------------------------------- known findings

def load_findings():
    p = os.path.join(VERIF, "known_findings.json")
    if not os.path.exists(p):
        return {"findings": [], "fixed": []}
    return json.load(open(p))


# ---------------------------------------------------------------- replay / evidence

def write_replay(prop, payload):
    d = os.path.join(VERIF, "replays")
    os.makedirs(d, exist_ok=True)
    h = hashlib.sha1(json.dumps(payload, sort_keys=True).encode()).hexdigest()[:10]
    p = os.path.join(d, f"{prop}-{h}.json")
    payload = dict(payload, property=prop, replay_cmd=f"bin/check {prop} --replay {p}")
    with open(p, "w") as f:
        json.dump(payload, f, indent=1)
    return p


def write_evidence(prop, ev):
    d = os.path.join(VERIF, "evidence")
    os.makedirs(d, exist_ok=True)
    with open(os.path.join(d, f"{prop}.json"), "w") as f:
        json.dump(ev, f, indent=1)
