"""Scenario generators.  Every random choice derives from the seed passed in."""
import itertools, random
from .common import Scenario, MAX

ALL_SHAPES = ["One", "Two", "Flat4", "Heap", "DrH", "DrN", "NFirst", "NFirstF", "NMid", "NMidF",
              "NLast", "NLastF", "Deep", "DeepF"]
NOCLONE = {"DrH", "DrN"}
DROP_SHAPES = ["DrH", "DrN"]
TWINS = [("NFirst", "NFirstF"), ("NMid", "NMidF"), ("NLast", "NLastF"), ("Deep", "DeepF")]
NLEAVES = {"One": 1, "Two": 2, "Flat4": 4, "Heap": 2, "DrH": 2, "DrN": 3, "NFirst": 3, "NFirstF": 3,
           "NMid": 4, "NMidF": 4, "NLast": 3, "NLastF": 3, "Deep": 5, "DeepF": 5}


def tags(n, base=0):
    return [(base + i) % 32 for i in range(n)]


def tl(ts):
    return ",".join(map(str, ts)) if ts else "-"


def boundary(n):
    """argument values around a length: 0..n+2, MAX-1, MAX"""
    return sorted(set(range(0, n + 3))) + [MAX - 1, MAX]


def setup(n, reg="r0", base=0):
    return f"collect {reg} {tl(tags(n, base))}"


def vec_boundary(shapes, L, with_masks=True):
    """for every op, every length 0..=L and every boundary argument: one scenario each"""
    out = []
    for sh in shapes:
        cl = sh not in NOCLONE
        for n in range(L + 1):
            s0 = [setup(n)]
            def add(lines, tag):
                out.append(Scenario(sh, s0 + lines + ["len r0", "is_empty r0"], tag))
            for a in boundary(n):
                add([f"insert r0 {a} 20"], "insert")
                add([f"remove r0 {a}"], "remove")
                add([f"swap_remove r0 {a}"], "swap_remove")
                add([f"replace r0 {a} 21"], "replace")
                add([f"truncate r0 {a}"], "truncate")
                add([f"split_off r0 {a} r1", "len r1"], "split_off")
                if cl:
                    add([f"resize r0 {a} 22" if a <= n + 2 else f"truncate r0 {a}"], "resize")
            add(["pop r0", "pop r0"], "pop")
            add(["clear r0", "push r0 23"], "clear")
            add(["push r0 24", "push r0 25"], "push")
            add(["drop r0"], "drop")
            for m in range(3):
                add([setup(m, "r1", 10), "append r0 r1", "len r1", "push r1 26"], "append")
                add([f"extend r0 {tl(tags(m, 12))}"], "extend")
                if cl:
                    add([setup(m, "r1", 10), "extend_from_slice r0 r1"], "extend_from_slice")
                    add([setup(m, "r1", 10), "extend_refs r0 r1"], "extend_refs")
            if cl:
                add(["to_vec r0 r1", "push r1 27", "pop r0"], "to_vec")
            if with_masks:
                for mask in itertools.product("01", repeat=n):
                    m = "".join(mask)
                    add([f"retain r0 keep={m}"], "retain")
                    add([f"retain_mut r0 keep={m} wleaf={len(m) % NLEAVES[sh]} wtag=16"], "retain_mut")
    return out


VEC_OPS = ["push", "push", "push", "pop", "insert", "insert", "remove", "swap_remove", "replace", "truncate",
           "clear", "append", "split_off", "retain", "retain_mut", "extend", "collect", "len", "is_empty", "drop",
           "resize", "to_vec", "extend_from_slice", "extend_refs"]
CLONE_OPS = {"resize", "to_vec", "extend_from_slice", "extend_refs"}


def rand_index(rng, n, p_invalid):
    """mostly valid; boundary and wild values with the given total probability"""
    x = rng.random()
    if x < 1 - p_invalid:
        return rng.randrange(0, n) if n > 0 else 0
    if x < 1 - p_invalid / 3:
        return rng.choice([n, n + 1, max(n - 1, 0)])
    return rng.choice([MAX, MAX - 1, n + 2, n + 7])


def vec_random(shapes, count, nops, seed, p_invalid=0.15, max_len=12):
    """random operation histories over three registers, lengths tracked to stay small"""
    rng = random.Random(seed)
    out = []
    for k in range(count):
        sh = shapes[k % len(shapes)]
        cl = sh not in NOCLONE
        lens = [0, 0, 0]
        nxt = rng.randrange(32)
        lines = []
        def fresh():
            nonlocal nxt
            nxt = (nxt + 1) % 32
            return nxt
        for _ in range(nops):
            op = rng.choice(VEC_OPS)
            if op in CLONE_OPS and not cl:
                continue
            r = rng.randrange(3)
            n = lens[r]
            if n >= max_len and op in ("push", "insert", "extend", "resize", "append", "extend_from_slice", "extend_refs"):
                op = rng.choice(["truncate", "pop", "split_off", "retain"])
            if op == "push":
                lines.append(f"push r{r} {fresh()}"); lens[r] += 1
            elif op == "pop":
                lines.append(f"pop r{r}"); lens[r] = max(0, n - 1)
            elif op == "insert":
                i = rand_index(rng, n + 1, p_invalid)
                lines.append(f"insert r{r} {i} {fresh()}")
                if i <= n: lens[r] += 1
            elif op in ("remove", "swap_remove"):
                i = rand_index(rng, n, p_invalid)
                lines.append(f"{op} r{r} {i}")
                if i < n: lens[r] -= 1
            elif op == "replace":
                i = rand_index(rng, n, p_invalid)
                lines.append(f"replace r{r} {i} {fresh()}")
            elif op == "truncate":
                i = rand_index(rng, n + 1, p_invalid)
                lines.append(f"truncate r{r} {i}"); lens[r] = min(n, i)
            elif op == "clear":
                lines.append(f"clear r{r}"); lens[r] = 0
            elif op == "drop":
                lines.append(f"drop r{r}"); lens[r] = 0
            elif op == "append":
                q = (r + 1 + rng.randrange(2)) % 3
                if lens[r] + lens[q] > max_len: continue
                lines.append(f"append r{r} r{q}"); lens[r] += lens[q]; lens[q] = 0
            elif op == "split_off":
                q = (r + 1 + rng.randrange(2)) % 3
                i = rand_index(rng, n + 1, p_invalid)
                lines.append(f"split_off r{r} {i} r{q}")
                if i <= n: lens[q] = n - i; lens[r] = i
            elif op in ("retain", "retain_mut"):
                mask = "".join(rng.choice("011") for _ in range(n))
                extra = f" wleaf={rng.randrange(NLEAVES[sh])} wtag={rng.randrange(32)}" if op == "retain_mut" and rng.random() < 0.6 else ""
                lines.append(f"{op} r{r} keep={mask}{extra}"); lens[r] = mask.count("1")
            elif op == "extend":
                m = rng.randrange(4)
                lines.append(f"extend r{r} {tl([fresh() for _ in range(m)])}"); lens[r] += m
            elif op == "collect":
                m = rng.randrange(5)
                lines.append(f"collect r{r} {tl([fresh() for _ in range(m)])}"); lens[r] = m
            elif op in ("len", "is_empty"):
                lines.append(f"{op} r{r}")
            elif op == "resize":
                m = rng.choice([0, n, n + 1, n + 3, max(0, n - 2), rng.randrange(max_len)])
                lines.append(f"resize r{r} {m} {fresh()}"); lens[r] = m
            elif op == "to_vec":
                q = (r + 1 + rng.randrange(2)) % 3
                lines.append(f"to_vec r{r} r{q}"); lens[q] = n
            elif op in ("extend_from_slice", "extend_refs"):
                q = (r + 1 + rng.randrange(2)) % 3
                if lens[r] + lens[q] > max_len: continue
                lines.append(f"{op} r{r} r{q}"); lens[r] += lens[q]
        out.append(Scenario(sh, lines, "random"))
    return out


# ------------------------------------------------------------------ indexing (C04)

KIND_MODES = [("vec", "shared"), ("vec", "mut"), ("slice", "shared"), ("slicemut", "shared"), ("slicemut", "mut")]
FORMS = ["pos", "range", "rangeto", "rangefrom", "full", "incl", "toincl"]


def index_lines(n, accessors=("get", "index"), kind_modes=KIND_MODES):
    """every index form x every boundary value (pairs for the two-sided forms, inverted and empty
    ranges included, the exhausted RangeInclusive too) x container kind x shared/mut x get/index"""
    vals = boundary(n)
    out = []
    for acc in accessors:
        for kind, mode in kind_modes:
            pre = f"{acc} r0 {kind} {mode}"
            for a in vals:
                out.append(f"{pre} pos {a} 0")
                out.append(f"{pre} rangefrom {a} 0")
                out.append(f"{pre} rangeto 0 {a}")
                out.append(f"{pre} toincl 0 {a}")
                out.append(f"{pre} incl 0 {a} ex")
                for b in vals:
                    out.append(f"{pre} range {a} {b}")
                    out.append(f"{pre} incl {a} {b}")
            out.append(f"{pre} full 0 0")
    return out


def index_exhaustive(shapes, L):
    return [Scenario(sh, [setup(n)] + index_lines(n), "index") for sh in shapes for n in range(L + 1)]


# ------------------------------------------------------------------ generic trait layer (C09)

T_OPS = {"push", "pop", "insert", "remove", "swap_remove", "replace", "truncate", "clear", "append", "split_off"}


def to_trait(sc):
    """the same scenario with every operation that exists in the traits dispatched through them"""
    lines = []
    for l in sc.lines:
        w = l.split()
        if w[0] in T_OPS: lines.append("t" + l)
        elif w[0] == "new": lines.append("tnew " + w[1])
        elif w[0] in ("len", "is_empty"): lines.append(f"tlen {w[1]} vec")
        else: lines.append(l)
    return Scenario(sc.shape, lines, "trait:" + sc.tag)


KINDS3 = ["vec", "slice", "slicemut"]


def bound_values(n):
    return ["unb"] + [f"{k}:{v}" for k in ("inc", "exc") for v in boundary(n)]


def trait_access(shapes, L):
    out = []
    for sh in shapes:
        for n in range(L + 1):
            lines = [setup(n)]
            for kind in KINDS3:
                lines.append(f"tlen r0 {kind}")
                for m in ("first", "last"):
                    lines.append(f"tget r0 {kind} {m}")
                if kind != "slice":
                    for m in ("first_mut", "last_mut"):
                        lines.append(f"tget r0 {kind} {m}")
                for i in boundary(n):
                    for m in ("get", "index") + (("get_mut", "index_mut") if kind != "slice" else ()):
                        lines.append(f"tget r0 {kind} {m} {i}")
            for kind, mode in KIND_MODES:
                for sb in bound_values(n):
                    for eb in bound_values(n):
                        lines.append(f"bounds r0 {kind} {mode} {sb} {eb}")
            out.append(Scenario(sh, lines, "trait-access"))
    return out


# ------------------------------------------------------------------ capacity contract (C12)

CAP_SHAPES = ["Two", "Flat4", "One", "Heap", "NMid", "Deep", "DrH", "NLast"]
GROW_OPS = ["push", "push", "push", "extend", "insert", "append", "extend_from_slice", "resize", "collect", "split_off", "to_vec"]


def cap_scenarios(shapes, count, nops, seed):
    """histories mixing growth, reserve*, shrink_to_fit, with_capacity with capacity queries and promises"""
    rng = random.Random(seed)
    out = []
    # systematic: with_capacity(n) / reserve(n) / reserve_exact(n) then the promised pushes, after 0..9 pushes
    for sh in shapes:
        for pre in range(0, 10):
            for n in (0, 1, 3, 4, 5, 8, 9, 17):
                base = [setup(pre)] if pre else ["new r0"]
                out.append(Scenario(sh, base + ["capacity r0", "caps r0", "promise r0", "len r0"], "cap-promise"))
                out.append(Scenario(sh, [f"with_capacity r0 {n}"] + [f"push r0 {i}" for i in range(min(pre, 3))] + ["caps r0", f"promise r0 {max(0, n - min(pre, 3))}", "capacity r0", "promise r0"], "with_capacity"))
                out.append(Scenario(sh, base + [f"reserve r0 {n}", "caps r0", f"promise r0 {n}", "capacity r0", "promise r0"], "reserve"))
                out.append(Scenario(sh, base + [f"reserve_exact r0 {n}", "caps r0", f"promise r0 {n}", "capacity r0", "promise r0"], "reserve_exact"))
                out.append(Scenario(sh, base + [f"reserve r0 {n}", "shrink_to_fit r0", "caps r0", "capacity r0", "promise r0"], "shrink"))
    for k in range(count):
        sh = shapes[k % len(shapes)]
        cl = sh not in NOCLONE
        lens = [0, 0, 0]
        lines = []
        t = 0
        for _ in range(nops):
            r = rng.randrange(2)
            x = rng.random()
            if x < 0.45:
                op = rng.choice(GROW_OPS)
                if op in CLONE_OPS and not cl: op = "push"
                t = (t + 1) % 32
                n = lens[r]
                if n > 40 and op not in ("split_off",): op = "truncate"
                if op == "push": lines.append(f"push r{r} {t}"); lens[r] += 1
                elif op == "extend": m = rng.randrange(6); lines.append(f"extend r{r} {tl(tags(m, t))}"); lens[r] += m
                elif op == "insert": lines.append(f"insert r{r} {rng.randrange(n + 1)} {t}"); lens[r] += 1
                elif op == "append": lines.append(f"append r{r} r{1 - r}"); lens[r] += lens[1 - r]; lens[1 - r] = 0
                elif op == "extend_from_slice": lines.append(f"extend_from_slice r{r} r{1 - r}"); lens[r] += lens[1 - r]
                elif op == "resize": m = rng.randrange(0, 14); lines.append(f"resize r{r} {m} {t}"); lens[r] = m
                elif op == "collect": m = rng.randrange(0, 10); lines.append(f"collect r{r} {tl(tags(m, t))}"); lens[r] = m
                elif op == "split_off": i = rng.randrange(n + 1); lines.append(f"split_off r{r} {i} r{1 - r}"); lens[1 - r] = n - i; lens[r] = i
                elif op == "to_vec": lines.append(f"to_vec r{r} r{1 - r}"); lens[1 - r] = n
                elif op == "truncate": i = rng.randrange(n + 1); lines.append(f"truncate r{r} {i}"); lens[r] = i
            elif x < 0.6:
                op = rng.choice(["reserve", "reserve_exact"]); n = rng.choice([0, 1, 2, 3, 5, 8, 13, 30])
                lines.append(f"{op} r{r} {n}")
                if rng.random() < 0.5: lines += [f"caps r{r}", f"promise r{r} {n}"]; lens[r] += min(n, 64)
            elif x < 0.68:
                lines.append(f"shrink_to_fit r{r}")
            elif x < 0.75:
                n = rng.choice([0, 1, 4, 7, 16]); lines.append(f"with_capacity r{r} {n}"); lens[r] = 0
                if rng.random() < 0.5: lines.append(f"promise r{r} {n}"); lens[r] = min(n, 64)
            elif x < 0.8:
                op = rng.choice(["pop", "clear", "swap_remove", "remove"])
                if op in ("pop", "clear"): lines.append(f"{op} r{r}"); lens[r] = 0 if op == "clear" else max(0, lens[r] - 1)
                elif lens[r] > 0: lines.append(f"{op} r{r} {rng.randrange(lens[r])}"); lens[r] -= 1
            else:
                lines += [f"capacity r{r}", f"caps r{r}"]
                if rng.random() < 0.5 and lens[r] < 40:
                    lines.append(f"promise r{r}")
                    lens[r] = None  # unknown until the promise ran; resynchronise with a clear
                    lines.append(f"clear r{r}"); lens[r] = 0
        out.append(Scenario(sh, lines, "cap-random"))
    return out
