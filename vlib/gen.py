"""Scenario generators.  Every random choice derives from the seed passed in."""
import itertools, random
from .common import Scenario, MAX

ALL_SHAPES = ["One", "Two", "Flat4", "Heap", "DrH", "DrN", "DrP", "PlC", "NFirst", "NFirstF", "Hyg", "N2", "ZZ", "NMid", "NMidF",
              "NLast", "NLastF", "Deep", "DeepF", "NPl", "HygD0", "HygD1", "HygD2", "HygD3", "HygD4"]
NOCLONE = set()   # (the Drop shapes had no Clone API before /repo 72750cf)
DROP_SHAPES = ["DrH", "DrN", "DrNN", "DrP"]
TWINS = [("NFirst", "NFirstF"), ("NMid", "NMidF"), ("NLast", "NLastF"), ("Deep", "DeepF")]
NLEAVES = {"DrP": 2, "PlC": 2, "One": 1, "Two": 2, "Flat4": 4, "Heap": 2, "DrH": 2, "DrN": 3, "DrNN": 3, "NFirst": 3, "NFirstF": 3, "Hyg": 6, "N2": 4, "ZZ": 2,
           "NMid": 4, "NMidF": 4, "NLast": 3, "NLastF": 3, "Deep": 5, "DeepF": 5,
           "NPl": 4, "HygD0": 8, "HygD1": 8, "HygD2": 8, "HygD3": 8, "HygD4": 8}


def tags(n, base=0):
    return [(base + i) % 32 for i in range(n)]


def tl(ts):
    return ",".join(map(str, ts)) if ts else "-"


def boundary(n):
    """argument values around a length: 0..n+2, MAX-1, MAX"""
    return sorted(set(range(0, n + 3))) + [MAX - 1, MAX]


def setup(n, reg="r0", base=0):
    return f"collect {reg} {tl(tags(n, base))}"


def vec_boundary(shapes, L, with_masks=True):
    """for every op, every length 0..=L and every boundary argument: one scenario each"""
    out = []
    for sh in shapes:
        cl = sh not in NOCLONE
        for n in range(L + 1):
            s0 = [setup(n)]
            def add(lines, tag):
                out.append(Scenario(sh, s0 + lines + ["len r0", "is_empty r0"], tag))
            for a in boundary(n):
                add([f"insert r0 {a} 20"], "insert")
                add([f"remove r0 {a}"], "remove")
                add([f"swap_remove r0 {a}"], "swap_remove")
                add([f"replace r0 {a} 21"], "replace")
                add([f"truncate r0 {a}"], "truncate")
                add([f"split_off r0 {a} r1", "len r1"], "split_off")
                if cl:
                    add([f"resize r0 {a} 22" if a <= n + 2 else f"truncate r0 {a}"], "resize")
            add(["pop r0", "pop r0"], "pop")
            add(["clear r0", "push r0 23"], "clear")
            add(["push r0 24", "push r0 25"], "push")
            add(["drop r0"], "drop")
            add(["unwind_drop r0", "push r0 28"], "unwind_drop")
            for m in range(3):
                add([setup(m, "r1", 10), "append r0 r1", "len r1", "push r1 26"], "append")
                add([f"extend r0 {tl(tags(m, 12))}"], "extend")
                # the iterator panics when asked for item k: the items before it stay pushed
                for k in range(m + 1):
                    add([f"extend_boom r0 {tl(tags(m, 12))} {k}", "len r0", "push r0 27"], "extend_boom")
                if cl:
                    add([setup(m, "r1", 10), "extend_from_slice r0 r1"], "extend_from_slice")
                    add([setup(m, "r1", 10), "extend_refs r0 r1"], "extend_refs")
                    add([setup(m, "r1", 10), "extend_refs_f r0 r1"], "extend_refs")
            if cl:
                for tv in TO_VEC:
                    add([f"{tv} r0 r1", "push r1 27", "pop r0"], "to_vec")
            if with_masks:
                for mask in itertools.product("01", repeat=n):
                    m = "".join(mask)
                    add([f"retain r0 keep={m}"], "retain")
                    add([f"retain_mut r0 keep={m} wleaf={len(m) % NLEAVES[sh]} wtag=16"], "retain_mut")
    return out


VEC_OPS = ["push", "push", "push", "pop", "insert", "insert", "remove", "swap_remove", "replace", "truncate",
           "clear", "append", "split_off", "retain", "retain_mut", "extend", "collect", "len", "is_empty", "drop",
           "resize", "to_vec", "extend_from_slice", "extend_refs"]
TO_VEC = ["to_vec", "to_vec_sm", "to_vec_ts", "to_vec_tsm"]   # Slice / SliceMut, inherent / through ToSoAVec
CLONE_OPS = {"resize", "to_vec", "extend_from_slice", "extend_refs"}


def rand_index(rng, n, p_invalid):
    """mostly valid; boundary and wild values with the given total probability"""
    x = rng.random()
    if x < 1 - p_invalid:
        return rng.randrange(0, n) if n > 0 else 0
    if x < 1 - p_invalid / 3:
        return rng.choice([n, n + 1, max(n - 1, 0)])
    return rng.choice([MAX, MAX - 1, n + 2, n + 7])


def vec_random(shapes, count, nops, seed, p_invalid=0.15, max_len=12, start=None):
    """random operation histories over three registers, lengths tracked to stay small;
    start=(lo, hi): the registers start with lo..hi elements (long vectors: word-size and chunk boundaries)"""
    rng = random.Random(seed)
    out = []
    for k in range(count):
        sh = shapes[k % len(shapes)]
        cl = sh not in NOCLONE
        lens = [0, 0, 0]
        nxt = rng.randrange(32)
        lines = []
        if start:
            for r0 in range(2):
                m0 = rng.choice([start[0], start[1], 64, 65, rng.randint(*start)])
                lines.append(f"collect r{r0} {tl(tags(m0, rng.randrange(32)))}"); lens[r0] = m0
        def fresh():
            nonlocal nxt
            nxt = (nxt + 1) % 32
            return nxt
        for _ in range(nops):
            op = rng.choice(VEC_OPS)
            if op in CLONE_OPS and not cl:
                continue
            r = rng.randrange(3)
            n = lens[r]
            if n >= max_len and op in ("push", "insert", "extend", "resize", "append", "extend_from_slice", "extend_refs"):
                op = rng.choice(["truncate", "pop", "split_off", "retain"])
            if op == "push":
                lines.append(f"push r{r} {fresh()}"); lens[r] += 1
            elif op == "pop":
                lines.append(f"pop r{r}"); lens[r] = max(0, n - 1)
            elif op == "insert":
                i = rand_index(rng, n + 1, p_invalid)
                lines.append(f"insert r{r} {i} {fresh()}")
                if i <= n: lens[r] += 1
            elif op in ("remove", "swap_remove"):
                i = rand_index(rng, n, p_invalid)
                lines.append(f"{op} r{r} {i}")
                if i < n: lens[r] -= 1
            elif op == "replace":
                i = rand_index(rng, n, p_invalid)
                lines.append(f"replace r{r} {i} {fresh()}")
            elif op == "truncate":
                i = rand_index(rng, n + 1, p_invalid)
                lines.append(f"truncate r{r} {i}"); lens[r] = min(n, i)
            elif op == "clear":
                lines.append(f"clear r{r}"); lens[r] = 0
            elif op == "drop":
                lines.append(f"{rng.choice(['drop', 'unwind_drop'])} r{r}"); lens[r] = 0
            elif op == "append":
                q = (r + 1 + rng.randrange(2)) % 3
                if lens[r] + lens[q] > max_len: continue
                lines.append(f"append r{r} r{q}"); lens[r] += lens[q]; lens[q] = 0
            elif op == "split_off":
                q = (r + 1 + rng.randrange(2)) % 3
                i = rand_index(rng, n + 1, p_invalid)
                lines.append(f"split_off r{r} {i} r{q}")
                if i <= n: lens[q] = n - i; lens[r] = i
            elif op in ("retain", "retain_mut"):
                mask = "".join(rng.choice("011") for _ in range(n))
                extra = f" wleaf={rng.randrange(NLEAVES[sh])} wtag={rng.randrange(32)}" if op == "retain_mut" and rng.random() < 0.6 else ""
                lines.append(f"{op} r{r} keep={mask}{extra}"); lens[r] = mask.count("1")
            elif op == "extend":
                m = rng.randrange(4)
                if rng.random() < 0.25:
                    k = rng.randrange(m + 1)
                    lines.append(f"extend_boom r{r} {tl([fresh() for _ in range(m)])} {k}"); lens[r] += min(k, m)
                elif rng.random() < 0.3:
                    # an iterator whose size_hint promises only its first `lo` items
                    lines.append(f"extend_lo r{r} {tl([fresh() for _ in range(m)])} {rng.randrange(m + 1)}"); lens[r] += m
                else:
                    lines.append(f"extend r{r} {tl([fresh() for _ in range(m)])}"); lens[r] += m
            elif op == "collect":
                m = rng.randrange(5)
                if rng.random() < 0.35:
                    lines.append(f"collect_lo r{r} {tl([fresh() for _ in range(m)])} {rng.randrange(m + 1)}"); lens[r] = m
                else:
                    lines.append(f"collect r{r} {tl([fresh() for _ in range(m)])}"); lens[r] = m
            elif op in ("len", "is_empty"):
                lines.append(f"{op} r{r}")
            elif op == "resize":
                m = rng.choice([0, n, n + 1, n + 3, max(0, n - 2), rng.randrange(max_len)])
                lines.append(f"resize r{r} {m} {fresh()}"); lens[r] = m
            elif op == "to_vec":
                q = (r + 1 + rng.randrange(2)) % 3
                lines.append(f"{rng.choice(TO_VEC)} r{r} r{q}"); lens[q] = n
            elif op in ("extend_from_slice", "extend_refs"):
                q = (r + 1 + rng.randrange(2)) % 3
                if lens[r] + lens[q] > max_len: continue
                opn = "extend_refs_f" if op == "extend_refs" and rng.random() < 0.5 else op
                lines.append(f"{opn} r{r} r{q}"); lens[r] += lens[q]
        out.append(Scenario(sh, lines, "random"))
    return out


# ------------------------------------------------------------------ indexing (C04)

KIND_MODES = [("vec", "shared"), ("vec", "mut"), ("slice", "shared"), ("slicemut", "shared"), ("slicemut", "mut")]
FORMS = ["pos", "range", "rangeto", "rangefrom", "full", "incl", "toincl"]


def index_lines(n, accessors=("get", "index"), kind_modes=KIND_MODES):
    """every index form x every boundary value (pairs for the two-sided forms, inverted and empty
    ranges included, the exhausted RangeInclusive too) x container kind x shared/mut x get/index"""
    vals = boundary(n)
    out = []
    for acc in accessors:
        for kind, mode in kind_modes:
            pre = f"{acc} r0 {kind} {mode}"
            for a in vals:
                out.append(f"{pre} pos {a} 0")
                out.append(f"{pre} rangefrom {a} 0")
                out.append(f"{pre} rangeto 0 {a}")
                out.append(f"{pre} toincl 0 {a}")
                out.append(f"{pre} incl 0 {a} ex")
                for b in vals:
                    out.append(f"{pre} range {a} {b}")
                    out.append(f"{pre} incl {a} {b}")
            out.append(f"{pre} full 0 0")
    return out


def index_exhaustive(shapes, L):
    return [Scenario(sh, [setup(n)] + index_lines(n), "index") for sh in shapes for n in range(L + 1)]


# ------------------------------------------------------------------ generic trait layer (C09)

T_OPS = {"push", "pop", "insert", "remove", "swap_remove", "replace", "truncate", "clear", "append", "split_off",
         "reserve", "reserve_exact", "shrink_to_fit", "capacity", "with_capacity"}


def to_trait(sc):
    """the same scenario with every operation that exists in the traits dispatched through them"""
    lines = []
    for l in sc.lines:
        w = l.split()
        if w[0] in T_OPS: lines.append("t" + l)
        elif w[0] == "new": lines.append("tnew " + w[1])
        elif w[0] in ("len", "is_empty"): lines.append(f"tlen {w[1]} vec")
        else: lines.append(l)
    return Scenario(sc.shape, lines, "trait:" + sc.tag)


KINDS3 = ["vec", "slice", "slicemut"]


def bound_values(n):
    return ["unb"] + [f"{k}:{v}" for k in ("inc", "exc") for v in boundary(n)]


def trait_access(shapes, L):
    out = []
    for sh in shapes:
        for n in range(L + 1):
            lines = [setup(n)]
            for kind in KINDS3:
                lines.append(f"tlen r0 {kind}")
                for m in ("first", "last"):
                    lines.append(f"tget r0 {kind} {m}")
                if kind != "slice":
                    for m in ("first_mut", "last_mut"):
                        lines.append(f"tget r0 {kind} {m}")
                for i in boundary(n):
                    for m in ("get", "index") + (("get_mut", "index_mut") if kind != "slice" else ()):
                        lines.append(f"tget r0 {kind} {m} {i}")
            for kind, mode in KIND_MODES:
                for sb in bound_values(n):
                    for eb in bound_values(n):
                        lines.append(f"bounds r0 {kind} {mode} {sb} {eb}")
            out.append(Scenario(sh, lines, "trait-access"))
    return out


# ------------------------------------------------------------------ capacity contract (C12)

CAP_SHAPES = ["Two", "Flat4", "One", "Heap", "NMid", "Deep", "DrH", "NLast", "ZZ", "N2"]
GROW_OPS = ["push", "push", "push", "extend", "insert", "append", "extend_from_slice", "resize", "collect", "split_off", "to_vec"]


def reserve_overflow(shapes):
    """requests no allocator can satisfy (>= 2^63 elements): `Vec::reserve*` reports "capacity overflow" before touching anything,
    in every profile; a zero-sized struct only when len + additional overflows"""
    out = []
    for sh in shapes:
        for pre in (0, 1, 3):
            base = [setup(pre)] if pre else ["new r0"]
            for n in (2 ** 63, 2 ** 63 + 1, MAX - 1, MAX):
                for op in ("reserve", "reserve_exact"):
                    out.append(Scenario(sh, base + [f"{op} r0 {n}", "len r0", "push r0 9", "len r0"], "reserve-overflow"))
    return out


def cap_scenarios(shapes, count, nops, seed):
    """histories mixing growth, reserve*, shrink_to_fit, with_capacity with capacity queries and promises"""
    rng = random.Random(seed)
    out = []
    # systematic: with_capacity(n) / reserve(n) / reserve_exact(n) then the promised pushes, after 0..9 pushes
    for sh in shapes:
        for pre in range(0, 10):
            for n in (0, 1, 3, 4, 5, 8, 9, 17):
                base = [setup(pre)] if pre else ["new r0"]
                out.append(Scenario(sh, base + ["capacity r0", "caps r0", "promise r0", "len r0"], "cap-promise"))
                out.append(Scenario(sh, [f"with_capacity r0 {n}"] + [f"push r0 {i}" for i in range(min(pre, 3))] + ["caps r0", f"promise r0 {max(0, n - min(pre, 3))}", "capacity r0", "promise r0"], "with_capacity"))
                out.append(Scenario(sh, base + [f"reserve r0 {n}", "caps r0", f"promise r0 {n}", "capacity r0", "promise r0"], "reserve"))
                out.append(Scenario(sh, base + [f"reserve_exact r0 {n}", "caps r0", f"promise r0 {n}", "capacity r0", "promise r0"], "reserve_exact"))
                out.append(Scenario(sh, base + [f"reserve r0 {n}", "shrink_to_fit r0", "caps r0", "capacity r0", "promise r0"], "shrink"))
                # a smaller request afterwards is satisfied already: it reserves nothing and takes nothing back
                # (`Vec::reserve*`: "does nothing if capacity is already sufficient"), so the earlier promise still stands
                if n >= 3 and pre in (0, 2, 7):
                    for first in (f"reserve r0 {n}", f"reserve_exact r0 {n}"):
                        for second in (f"reserve_exact r0 {n // 2}", f"reserve r0 {n // 3}", "reserve_exact r0 0"):
                            out.append(Scenario(sh, base + [first, second, "caps r0", f"promise r0 {n}", "len r0"], "reserve-twice"))
                    if pre == 0:
                        out.append(Scenario(sh, [f"with_capacity r0 {n}", f"reserve_exact r0 {n // 2}", "reserve r0 1", "caps r0", f"promise r0 {n}", "len r0"], "reserve-twice"))
        # a request of more than a megabyte per field array (a 2 KiB field x 600 / 1000 elements) is honoured like a small one
        if sh == "Flat4":
            for n in (600, 1000):
                out.append(Scenario(sh, [f"with_capacity r0 {n}", "caps r0", "capacity r0", f"promise r0 {n}", "len r0"], "with_capacity-large"))
                out.append(Scenario(sh, ["new r0", f"reserve r0 {n}", "caps r0", "capacity r0", f"promise r0 {n}", "len r0"], "reserve-large"))
        # the reserved room is used up by any mix of growing operations, not only by push: reserve(n), grow by k <= n through
        # another operation, then the remaining n - k pushes must not reallocate either
        for pre in (0, 1, 5):
            for n in (4, 9, 17):
                for k in (1, 3, n):
                    base = [setup(pre)] if pre else ["new r0"]
                    for how, cmd in (("reserve", f"reserve r0 {n}"), ("reserve_exact", f"reserve_exact r0 {n}")):
                        consume = [[setup(k, "r1", 10), "append r0 r1"], [f"extend r0 {tl(tags(k, 12))}"], [f"insert r0 0 {8 + j}" for j in range(k)]]
                        if sh not in NOCLONE:
                            consume += [[setup(k, "r1", 10), "extend_from_slice r0 r1"], [setup(k, "r1", 10), "extend_refs r0 r1"], [f"resize r0 {pre + k} 27"]]
                        for c in consume:
                            out.append(Scenario(sh, base + [cmd] + c + ["caps r0", f"promise r0 {n - k}", "len r0"], "reserve-then-" + c[-1].split()[0]))
                    if pre == 0:
                        for c in ([setup(k, "r1", 10), "append r0 r1"], [f"extend r0 {tl(tags(k, 12))}"]):
                            out.append(Scenario(sh, [f"with_capacity r0 {n}"] + c + ["caps r0", f"promise r0 {n - k}", "len r0"], "with_capacity-then-" + c[-1].split()[0]))
    for k in range(count):
        sh = shapes[k % len(shapes)]
        cl = sh not in NOCLONE
        lens = [0, 0, 0]
        lines = []
        t = 0
        for _ in range(nops):
            r = rng.randrange(2)
            x = rng.random()
            if x < 0.45:
                op = rng.choice(GROW_OPS)
                if op in CLONE_OPS and not cl: op = "push"
                t = (t + 1) % 32
                n = lens[r]
                if n > 40 and op not in ("split_off",): op = "truncate"
                if op == "push": lines.append(f"push r{r} {t}"); lens[r] += 1
                elif op == "extend": m = rng.randrange(6); lines.append(f"extend r{r} {tl(tags(m, t))}"); lens[r] += m
                elif op == "insert": lines.append(f"insert r{r} {rng.randrange(n + 1)} {t}"); lens[r] += 1
                elif op == "append": lines.append(f"append r{r} r{1 - r}"); lens[r] += lens[1 - r]; lens[1 - r] = 0
                elif op == "extend_from_slice": lines.append(f"extend_from_slice r{r} r{1 - r}"); lens[r] += lens[1 - r]
                elif op == "resize": m = rng.randrange(0, 14); lines.append(f"resize r{r} {m} {t}"); lens[r] = m
                elif op == "collect": m = rng.randrange(0, 10); lines.append(f"collect r{r} {tl(tags(m, t))}"); lens[r] = m
                elif op == "split_off": i = rng.randrange(n + 1); lines.append(f"split_off r{r} {i} r{1 - r}"); lens[1 - r] = n - i; lens[r] = i
                elif op == "to_vec": lines.append(f"{rng.choice(TO_VEC)} r{r} r{1 - r}"); lens[1 - r] = n
                elif op == "truncate": i = rng.randrange(n + 1); lines.append(f"truncate r{r} {i}"); lens[r] = i
            elif x < 0.6:
                op = rng.choice(["reserve", "reserve_exact"]); n = rng.choice([0, 1, 2, 3, 5, 8, 13, 30])
                lines.append(f"{op} r{r} {n}")
                if rng.random() < 0.5: lines += [f"caps r{r}", f"promise r{r} {n}"]; lens[r] += min(n, 64)
            elif x < 0.68:
                lines.append(f"shrink_to_fit r{r}")
            elif x < 0.75:
                n = rng.choice([0, 1, 4, 7, 16]); lines.append(f"with_capacity r{r} {n}"); lens[r] = 0
                if rng.random() < 0.5: lines.append(f"promise r{r} {n}"); lens[r] = min(n, 64)
            elif x < 0.8:
                op = rng.choice(["pop", "clear", "swap_remove", "remove"])
                if op in ("pop", "clear"): lines.append(f"{op} r{r}"); lens[r] = 0 if op == "clear" else max(0, lens[r] - 1)
                elif lens[r] > 0: lines.append(f"{op} r{r} {rng.randrange(lens[r])}"); lens[r] -= 1
            else:
                lines += [f"capacity r{r}", f"caps r{r}"]
                if rng.random() < 0.5 and lens[r] < 40:
                    lines.append(f"promise r{r}")
                    lens[r] = None  # unknown until the promise ran; resynchronise with a clear
                    lines.append(f"clear r{r}"); lens[r] = 0
        out.append(Scenario(sh, lines, "cap-random"))
    return out


# ------------------------------------------------------------------ views (C05)

def view_steps(rng_vals, depth, mutable):
    """all single view operations on a view of length n (valid and invalid arguments)"""
    raise NotImplementedError


def view_ops_for(n, mutable):
    """every view operation applicable to a window of length n, with the length of the resulting window
    (None = terminal / panics / None result)"""
    ops = []
    for k in list(range(n + 2)):
        for side in (0, 1):
            ops.append((f"split_at:{k}:{side}", (k if side == 0 else n - k) if k <= n else None))
    ops.append(("split_first:rest", n - 1 if n > 0 else None))
    ops.append(("split_last:rest", n - 1 if n > 0 else None))
    ops.append(("split_first:elem", None)); ops.append(("split_last:elem", None))
    for a in range(n + 2):
        for b in range(n + 2):
            ops.append((f"range:{a}:{b}", b - a if a <= b <= n else None))
    # the Option-returning accessor with a range (empty ranges at and past the end, reversed ones): `None` ends the walk
    for a in range(n + 3):
        for b in sorted({a, max(a - 1, 0), n, n + 1}):
            ops.append((f"getr:{a}:{b}", b - a if a <= b <= n else None))
    # inclusive sub-ranges, reversed ones (a > b + 1) included: std accepts `a..=b` iff a <= b + 1 <= n
    for a in range(n + 2):
        for b in sorted({0, max(n - 1, 0), n}):
            ops.append((f"incl:{a}:{b}", b + 1 - a if (a <= b + 1 and b + 1 <= n) else None))
    for a in range(n + 2):
        ops.append((f"rangeto:{a}", a if a <= n else None))
        ops.append((f"rangefrom:{a}", n - a if a <= n else None))
        ops.append((f"get:{a}", None)); ops.append((f"idx:{a}", None))
    ops.append(("first", None)); ops.append(("last", None))
    ops.append(("reborrow", n))
    if mutable:
        ops.append(("as_ref", n)); ops.append(("as_slice", n))
        ops.append(("rebdrop", n)); ops.append((f"peek:{max(n - 1, 0)}", n))
    return ops


def view_scenarios(shapes, L, depth, seed, per_len=400):
    """view-of-view paths up to `depth`: depth-1 exhaustive, deeper paths sampled by seed; every mutable
    path is also run with a final write at every position/leaf"""
    rng = random.Random(seed)
    out = []
    for sh in shapes:
        nl = NLEAVES[sh]
        for n in range(L + 1):
            lines = [setup(n)]
            for mode, start in (("shared", "as_slice"), ("mut", "as_mut_slice")):
                mutable = mode == "mut"
                paths = [([], n)]
                # exhaustive depth 1
                level1 = [([op], ln) for op, ln in view_ops_for(n, mutable)]
                chosen = list(level1)
                frontier = [p for p in level1 if p[1] is not None]
                for d in range(2, depth + 1):
                    nxt = []
                    for path, ln in frontier:
                        is_shared_now = (not mutable) or any(t in ("as_ref", "as_slice") for t in path)
                        for op, l2 in view_ops_for(ln, mutable and not is_shared_now):
                            nxt.append((path + [op], l2))
                    rng.shuffle(nxt)
                    nxt = nxt[:per_len]
                    chosen += nxt
                    frontier = [p for p in nxt if p[1] is not None]
                for path, ln in paths + chosen:
                    lines.append(f"view r0 {mode} {start} " + " ".join(path))
                    is_shared = (not mutable) or any(t in ("as_ref", "as_slice") for t in path)
                    if mutable and not is_shared:
                        last = path[-1] if path else ""
                        elem_terminal = last.endswith(":elem") or last.split(":")[0] in ("first", "last", "get", "idx")
                        if elem_terminal:
                            lines.append(f"viewmut r0 mut {start} " + " ".join(path) + f" write:0:{rng.randrange(nl)}:{rng.randrange(32)}")
                        elif ln is not None:
                            for pos in range(ln + 1):
                                lines.append(f"viewmut r0 mut {start} " + " ".join(path) + f" write:{pos}:{rng.randrange(nl)}:{rng.randrange(32)}")
            # sub-slices taken directly from the vector
            for a in range(n + 2):
                for b in range(n + 2):
                    lines.append(f"view r0 shared slice:{a}:{b}")
                    lines.append(f"view r0 mut slice_mut:{a}:{b}")
                    if a <= b <= n and b > a:
                        lines.append(f"viewmut r0 mut slice_mut:{a}:{b} write:0:{rng.randrange(nl)}:{rng.randrange(32)}")
            out.append(Scenario(sh, lines, "views"))
    return out


# ------------------------------------------------------------------ iterators (C06)

ITER_SOURCES = ["vec.iter", "vec.for", "slice.iter", "slice.into_iter", "slice.trait", "slice.for_ref", "slicemut.iter", "slice.iter.reuse", "slicemut.iter.reuse"]
ITERMUT_SOURCES = ["vec.iter_mut", "vec.for_mut", "slicemut.iter_mut", "slicemut.into_iter", "slicemut.trait", "slicemut.iter_mut.reuse"]


def iter_scenarios(shapes, L):
    """all front/back interleavings until exhaustion and two steps past it, len and size_hint after every step"""
    out = []
    for sh in shapes:
        for n in range(L + 1):
            lines = [setup(n)]
            for steps in itertools.product("FB", repeat=n + 2):
                st = "LH" + "".join(c + "LH" for c in steps)
                for src in ITER_SOURCES:
                    lines.append(f"iter r0 {src} {st}")
            out.append(Scenario(sh, lines, "iter"))
            # mutable iteration writes: a fresh container per run (the writes change it)
            for k, steps in enumerate(itertools.product("FB", repeat=n + 2)):
                src = ITERMUT_SOURCES[k % len(ITERMUT_SOURCES)]
                st = "".join(c + "L" for c in steps)
                out.append(Scenario(sh, [setup(n), f"itermut r0 {src} {st}", "len r0"], "itermut"))
            # the reversed iterators (`.rev()` on the concrete type), stepped from both of their ends
            for steps in itertools.product("FB", repeat=min(n + 1, 4)):
                st = "".join(c + "L" for c in steps)
                out.append(Scenario(sh, [setup(n), f"iter r0 vec.iter.rev {st}", f"iter r0 slice.iter.rev {st}"], "iter-rev"))
                out.append(Scenario(sh, [setup(n), f"itermut r0 {'vec.iter_mut.rev' if len(out) % 2 else 'slicemut.iter_mut.rev'} {st}", "len r0"], "itermut-rev"))
            # internal iteration that consumes the iterator (fold, rfold, rev().for_each) after a few plain steps
            for j, (pre, term) in enumerate(itertools.product(("", "F", "B", "FB", "BF", "N"), "XYVW")):
                out.append(Scenario(sh, [setup(n), f"iter r0 {ITER_SOURCES[j % len(ITER_SOURCES)]} {pre}{term}", f"iter r0 {ITER_SOURCES[(j + 3) % len(ITER_SOURCES)]} {pre}L{term}"], "iter-fold"))
                out.append(Scenario(sh, [setup(n), f"itermut r0 {ITERMUT_SOURCES[j % len(ITERMUT_SOURCES)]} {pre}{term}", "len r0"], "itermut-fold"))
            # adaptor-style consumption (nth / nth_back in range and overshooting, last, count) mixed with plain steps,
            # the iterator used again afterwards; len and size_hint after every step
            adapt = []
            for pre in itertools.product("FBNR", repeat=min(n, 2)):
                for mid in "NZRTC":
                    adapt.append("".join(pre) + mid + "FB")
            alines = [setup(n)]
            for j, steps in enumerate(adapt):
                st = "LH" + "".join(c + "LH" for c in steps)
                alines.append(f"iter r0 {ITER_SOURCES[j % len(ITER_SOURCES)]} {st}")
                msrc = ITERMUT_SOURCES[j % len(ITERMUT_SOURCES)]
                out.append(Scenario(sh, [setup(n), f"itermut r0 {msrc} {''.join(c + 'L' for c in steps)}", "len r0"], "itermut-adapt"))
            out.append(Scenario(sh, alines, "iter-adapt"))
    return out


# ------------------------------------------------------------------ sorting (C07)

SORT_ENTRIES = ["sort", "sort_by", "sort_by_key", "tsm_sort_by", "tsm_sort_by_key", "tvec_sort_by", "tvec_sort_by_key"]


def sort_scenarios(shapes, L, seed, nrandom=40, max_random_len=200):
    rng = random.Random(seed)
    out = []
    for sh in shapes:
        # exhaustive key assignments with ties (keys 0..2) over lengths 0..=L: tag = key + 4 * position
        for n in range(L + 1):
            for keys in itertools.product(range(3), repeat=n):
                ts = [k + 4 * i for i, k in enumerate(keys)]
                entry = SORT_ENTRIES[(sum(keys) + n) % len(SORT_ENTRIES)]
                lines = [f"collect r0 {tl(ts)}", f"sort r0 {entry} mod=4"]
                out.append(Scenario(sh, lines, "sort-keys"))
            # every entry point at this length, on one tie-heavy assignment and one reversed
            for entry in SORT_ENTRIES:
                ts = [(n - 1 - i) % 3 + 4 * i for i in range(n)]
                out.append(Scenario(sh, [f"collect r0 {tl(ts)}", f"sort r0 {entry} mod=4", f"sort r0 {entry} mod=2"], "sort-entry"))
            # all permutations of 0..n as index lists (n <= L), through both apply_index entry points
            if n <= 6:
                perms = list(itertools.permutations(range(n)))
                reuse_perms = perms if len(perms) <= 24 else rng.sample(perms, 24)
                for pm in reuse_perms:
                    out.append(Scenario(sh, [setup(n), f"apply_index_reuse r0 {tl(list(pm))}", "len r0"], "apply_index-reuse"))
                if len(perms) > 130: perms = rng.sample(perms, 130) + [tuple(range(n)), tuple(reversed(range(n)))]
                for via in ("vec", "slicemut"):
                    lines = [setup(n)]
                    for p in perms:
                        lines.append(f"apply_index r0 {via} {tl(p)}")
                    out.append(Scenario(sh, lines, "apply_index"))
            # sub-slice sorting leaves the rest alone
            for a in range(n + 1):
                for b in range(a, n + 1):
                    ts = [(7 * i + 3) % 32 for i in range(n)]
                    out.append(Scenario(sh, [f"collect r0 {tl(ts)}", f"sort r0 sort_by_key mod=3 range={a}:{b}", f"sort r0 sort range={a}:{b}"], "sort-range"))
    # random keys up to length 200 (tags < 32, so ties abound)
    for k in range(nrandom):
        sh = shapes[k % len(shapes)]
        n = rng.choice([7, 16, 33, 64, 100, max_random_len])
        ts = [rng.randrange(32) for _ in range(n)]
        entry = SORT_ENTRIES[k % len(SORT_ENTRIES)]
        out.append(Scenario(sh, [f"collect r0 {tl(ts)}", f"sort r0 {entry} mod={rng.choice([2, 3, 5, 8])}", f"sort r0 sort"], "sort-random"))
    return out


# ------------------------------------------------------------------ pointer bundles (C10)

def ptr_scenarios(shapes, L):
    out = []
    for sh in shapes:
        for n in range(L + 1):
            lines = [setup(n)]
            srcs = [("vec", "const", 0), ("vec", "mut", 0), ("slice", "const", 0), ("slicemut", "const", 0), ("slicemut", "mut", 0),
                    ("tvec", "const", 0), ("tvec", "mut", 0), ("tslice", "const", 0), ("tslicemut", "const", 0), ("tslicemut", "mut", 0)]
            for i in range(n):
                srcs += [(f"ref:{i}", "const", i), (f"refmut:{i}", "const", i), (f"refmut:{i}", "mut", i)]
            for src, cm, base in srcs:
                lines.append(f"ptr r0 {src} {cm} is_null")
                for target in range(n + 1):
                    d = target - base
                    fams = [[f"add:{d}"] if d >= 0 else [f"sub:{-d}"], [f"offset:{d}"], [f"wadd:{d}"] if d >= 0 else [f"wsub:{-d}"], [f"woffset:{d}"],
                            [f"add:{n - base}", f"sub:{n - target}"], [f"wadd:{n + 5}", f"wsub:{n + 5 - d}"] if n + 5 - d >= 0 else [f"woffset:{d}"],
                            # the wrapping moves accept every count, the one whose negation overflows included
                            [f"wsub:{2 ** 63}", f"wadd:{2 ** 63}", f"woffset:{d}"], [f"wadd:{2 ** 63}", f"woffset:{d}", f"wsub:{2 ** 63}"]]
                    for fam in fams:
                        st = " ".join(fam)
                        lines.append(f"ptr r0 {src} {cm} {st}")
                        if target < n:
                            for rd in ("read", "read_volatile", "read_unaligned", "as_ref"):
                                lines.append(f"ptr r0 {src} {cm} {st} {rd}")
                    if target < n:
                        if cm == "const":
                            lines.append(f"ptr r0 {src} const offset:{d} as_mut_ptr as_ref")
                        else:
                            lines.append(f"ptr r0 {src} mut offset:{d} as_ptr read")
                            lines.append(f"ptr r0 {src} mut offset:{d} as_mut")
                for j in range(NLEAVES[sh]):
                    lines.append(f"ptr r0 {src} {cm} null:{j} is_null")
                    lines.append(f"ptr r0 {src} {cm} null:{j} as_ref")
            out.append(Scenario(sh, lines, "ptr-read"))
            # writes and round trips: fresh container each
            for target in range(n):
                for k, wr in enumerate(("write", "write_volatile", "write_unaligned")):
                    src = ["vec", "slicemut", f"refmut:{target}"][k % 3]
                    d = 0 if src.startswith("refmut") else target
                    out.append(Scenario(sh, [setup(n), f"ptrw r0 {src} mut add:{d} {wr}:{20 + k}", f"ptrw r0 vec mut add:{target} as_mut:{target % NLEAVES[sh]}:{25}", "len r0"], "ptr-write"))
            for kind in ("vec", "slice", "slicemut"):
                out.append(Scenario(sh, [setup(n), "push r0 30", "pop r0", f"roundtrip r0 {kind}", "push r0 31", "len r0"], "roundtrip"))
            # a vector round trip that keeps its spare capacity (all field arrays allocated with one exact capacity)
            out.append(Scenario(sh, [f"with_capacity r0 {n + 5}"] + [f"push r0 {i}" for i in range(n)] + ["caps r0", "roundtrip r0 vec_cap", "caps r0", "capacity r0", f"promise r0 5", "len r0"], "roundtrip-cap"))
            # windows of the views and their from_raw_parts(_mut) round trips designate the window's first position in every field, empty windows included
            wl = [setup(n)]
            for a in range(n + 1):
                for b in sorted({a, min(a + 1, n), n}):
                    for src, cm in (("wins", "const"), ("winsm", "const"), ("winsm", "mut"), ("rts", "const"), ("rtsm", "const"), ("rtsm", "mut")):
                        wl.append(f"ptr r0 {src}:{a}:{b} {cm}")
                        if a < b: wl.append(f"ptr r0 {src}:{a}:{b} {cm} read")
                        if b - a > 1: wl.append(f"ptr r0 {src}:{a}:{b} {cm} add:{b - a - 1} as_ref")
            out.append(Scenario(sh, wl, "ptr-window"))
    return out


# ------------------------------------------------------------------ element references (C15)

def refs_scenarios(shapes, L):
    out = []
    for sh in shapes:
        nl = NLEAVES[sh]
        for n in range(L + 1):
            lines = [setup(n), setup(2, "r1", 20)]
            for t in (0, 7, 31):
                lines.append(f"refs r0 value_as_ref {t}")
                for leaf in range(nl):
                    lines.append(f"refs r0 value_as_mut {t} {leaf} {(t + 5) % 32}")
            for i in range(n):
                for what in ("to_owned", "from", "from_ref", "mut_to_owned", "from_mut", "from_mut_ref"):
                    lines.append(f"refs r0 {what} {i}")
            if sh not in NOCLONE:
                lines += ["extend_refs r1 r0", "len r1", "extend_refs_f r1 r0", "len r1"]
            out.append(Scenario(sh, lines, "refs"))
            for i in range(n + 1):
                out.append(Scenario(sh, [setup(n), f"refreplace r0 {i} 25", "len r0"] if i < n else [setup(n), "len r0"], "refreplace"))
    return out


# ------------------------------------------------------------------ mutable-slice API with invalid arguments (C02)

def slicemut_invalid(shapes, L, seed):
    """swap / apply_index / sort* / writes with valid and invalid arguments, caught and continued"""
    rng = random.Random(seed)
    out = []
    for sh in shapes:
        for n in range(L + 1):
            base = [setup(n)]
            for a in boundary(n)[:n + 3] + [MAX]:
                for b in (0, n - 1 if n else 0, n, MAX):
                    out.append(Scenario(sh, base + [f"swap r0 {a} {b}", "len r0"], "swap"))
            # index lists that are not permutations of 0..n: duplicates, out of range, wrong length
            cands = set()
            for _ in range(12):
                cands.add(tuple(rng.randrange(n + 1) for _ in range(n)))
                cands.add(tuple(rng.randrange(max(n, 1)) for _ in range(n)))
            cands.add(tuple(range(n + 1))); cands.add(tuple(range(max(n - 1, 0))));
            # exactly `n` entries, strictly increasing, not a permutation: shifted by one, or the last one out of range
            if n > 0: cands.add(tuple(range(1, n + 1))); cands.add(tuple(list(range(n - 1)) + [n + 5]))
            cands.add(tuple([0] * n)); cands.add(tuple(reversed(range(n))))
            for via in ("vec", "slicemut"):
                for c in sorted(cands):
                    out.append(Scenario(sh, base + [f"apply_index r0 {via} {tl(c)}", "len r0", "push r0 30"], "apply_index"))
            for entry in SORT_ENTRIES[:3]:
                out.append(Scenario(sh, base + [f"sort r0 {entry} mod=3 range={n}:{n + 1}", f"sort r0 {entry} mod=3 range=1:0", "len r0"], "sort-invalid-range"))
    return out


# ------------------------------------------------------------------ panics in user callbacks (C16)

AFTER = ["len r0", "push r0 29", "pop r0", "retain r0 keep=1", "len r0"]


def fault_scenarios(shapes, L, seed):
    """for every callback-taking operation, every invocation index k of the callback as the panic point,
    followed by an audit and further operations (and the final drop of everything)"""
    rng = random.Random(seed)
    retain, others = [], []
    for sh in shapes:
        cl = sh not in NOCLONE
        nl = NLEAVES[sh]
        for n in range(L + 1):
            ts = [(3 * i + 1) % 32 for i in range(n)]
            base = [f"collect r0 {tl(ts)}"]
            # retain / retain_mut: the callback is called n times
            for k in range(n + 1):
                for mask in (("1" * n), ("0" * n), "".join("10"[(i + k) % 2] for i in range(n)), "".join(rng.choice("01") for _ in range(n))):
                    retain.append(Scenario(sh, base + [f"retain r0 keep={mask} panic={k}"] + AFTER, "retain-fault"))
                    retain.append(Scenario(sh, base + [f"retain_mut r0 keep={mask} panic={k} wleaf={k % nl} wtag=17"] + AFTER, "retain_mut-fault"))
                    retain.append(Scenario(sh, base + [f"retain_mut r0 keep={mask} panic={k}"] + AFTER, "retain_mut-fault"))
            # sorts: comparator / key function / the user's Ord; the number of calls depends on std's algorithm:
            # every k up to a generous bound (a fuse that is never reached simply does not fire)
            for entry in SORT_ENTRIES:
                for k in range(0, 2 * n + 3):
                    if entry == "sort":
                        others.append(Scenario(sh, base + [f"cmpfuse {k}", "sort r0 sort"] + AFTER, "sort-fault"))
                    else:
                        others.append(Scenario(sh, base + [f"sort r0 {entry} mod=3 panic={k}"] + AFTER, "sort-fault"))
            # the same on inputs that are far from sorted (descending keys, so that a sort moves every element) and a little
            # longer; after the caught panic the container is sorted again, through the inherent and the trait entry points
            for n2 in sorted({n, n + 2}):
                base2 = [f"collect r0 {tl([(n2 - i) % 32 for i in range(n2)])}"]
                for entry in SORT_ENTRIES:
                    if entry == "sort": continue
                    for k in range(0, 3 * n2 + 2):
                        others.append(Scenario(sh, base2 + [f"sort r0 {entry} mod=7 panic={k}"] + AFTER +
                                               ["sort r0 sort_by_key mod=7", "sort r0 tvec_sort_by mod=5", "len r0"], "sort-fault-unsorted"))
            # a length no allocation can hold: `resize` reports "capacity overflow" and has changed nothing (all-zero-sized structs excluded:
            # their `Vec<T>::resize(usize::MAX)` really pushes)
            if cl and sh not in ("ZZ",) and n <= 2:
                for big in (MAX, MAX - 1, 2 ** 63):
                    others.append(Scenario(sh, base + [f"resize r0 {big} 27", "len r0", "push r0 28"] + AFTER, "resize-overflow"))
            # user Clone: to_vec, resize, extend_from_slice, Extend<Ref>, to_owned
            for k in range(0, nl * (n + 2) + 1):
                if cl:
                    for tv in TO_VEC:
                        others.append(Scenario(sh, base + [f"clonefuse {k}", f"{tv} r0 r1", "len r1"] + AFTER, "to_vec-fault"))
                    others.append(Scenario(sh, base + [setup(2, "r1", 20), f"clonefuse {k}", "extend_refs r1 r0", "len r1", "push r1 28"] + AFTER, "extend_refs-fault"))
                    # (known findings KF-C16-*: the container may be left desynchronised; nothing is run on it afterwards
                    #  except the final drop, because debug builds would only cascade assertion failures)
                    others.append(Scenario(sh, base + [f"clonefuse {k}", f"resize r0 {n + 3} 27"], "resize-fault"))
                    # clone_from: into a shorter, an equal and a longer vector
                    for m2 in sorted({0, n, n + 2}):
                        others.append(Scenario(sh, base + [setup(m2, "r1", 20), f"clonefuse {k}", "clone_from r1 r0", "len r1", "push r1 28", "pop r1"] + AFTER, "clone_from-fault"))
                    others.append(Scenario(sh, base + [setup(2, "r1", 20), f"clonefuse {k}", "extend_from_slice r1 r0"], "extend_from_slice-fault"))
                if n > 0 and k <= nl:
                    others.append(Scenario(sh, base + [f"clonefuse {k}", f"refs r0 to_owned {n - 1}"] + AFTER, "to_owned-fault"))
    return retain, others


# ------------------------------------------------------------------ desynchronised containers (C19)

def desync_scenarios(shapes, L, thin=False):
    """containers of length <= L desynchronised by growing, shrinking or clearing any one leaf array (leaves of
    nested containers included) x every safe method x every index value; one scenario per (desync, method group)
    so that an abort (debug builds) only loses one group"""
    out = []
    for sh in shapes:
        nl = NLEAVES[sh]
        cl = sh not in NOCLONE
        for n in range(L + 1):
            for leaf in range(nl):
                for what in ("pop", "push", "clear", "fill"):
                    if what in ("pop", "clear") and n == 0: continue
                    base = [setup(n), f"desync r0 {leaf} {what}"]
                    groups = []
                    idx = []
                    for acc in ("get", "index"):
                        for kind, mode in KIND_MODES:
                            for a in range(n + 2):
                                idx.append(f"{acc} r0 {kind} {mode} pos {a} 0")
                                for b in range(a, n + 2):
                                    idx.append(f"{acc} r0 {kind} {mode} range {a} {b}")
                            idx.append(f"{acc} r0 {kind} {mode} full 0 0")
                            idx.append(f"{acc} r0 {kind} {mode} rangefrom 0 0")
                            idx.append(f"{acc} r0 {kind} {mode} toincl 0 {n}")
                    # every accessor line is its own scenario: an out-of-bounds unchecked access aborts debug builds
                    if thin: idx = idx[(n + leaf) % 4::4]
                    for l in idx: groups.append([l])
                    groups.append(["len r0", "is_empty r0", "capacity r0"])
                    for i in range(n + 2):
                        groups.append([f"view r0 shared as_slice split_at:{i}:1"]); groups.append([f"view r0 mut as_mut_slice split_at:{i}:0"])
                        groups.append([f"view r0 shared as_slice get:{i}"]); groups.append([f"view r0 shared slice:0:{i}"])
                        groups.append([f"remove r0 {i}"]); groups.append([f"swap_remove r0 {i}"]); groups.append([f"insert r0 {i} 25"])
                        groups.append([f"replace r0 {i} 26"]); groups.append([f"truncate r0 {i}"]); groups.append([f"split_off r0 {i} r1"])
                        groups.append([f"swap r0 0 {i}"]); groups.append([f"refreplace r0 {i} 27"]); groups.append([f"tget r0 vec get {i}"])
                        groups.append([f"ptr r0 vec const add:{i} as_ref"] if False else [f"tget r0 slice index {i}"])
                    for g in (["view r0 shared as_slice first"], ["view r0 shared as_slice last"], ["view r0 mut as_mut_slice split_first:rest"], ["view r0 mut as_mut_slice split_last:elem"],
                              ["iter r0 vec.iter " + "F" * (n + 2) + "LH"], ["iter r0 slice.for_ref " + "B" * (n + 2) + "LH"], ["itermut r0 vec.iter_mut " + "FB" * (n + 1)],
                              ["iter r0 slicemut.iter " + "F" * (n + 2) + "LH"], ["itermut r0 slicemut.iter_mut " + "BF" * (n + 1)], ["iter r0 slicemut.iter.reuse " + "F" * (n + 2)],
                              ["push r0 28"], ["pop r0", "pop r0"], ["clear r0"], ["retain r0 keep=" + "10" * n], ["retain_mut r0 keep=" + "01" * n],
                              ["sort r0 sort_by_key mod=3"], ["sort r0 sort"], [f"apply_index r0 vec {tl(list(reversed(range(n))))}"], ["extend r0 20,21"],
                              [setup(2, "r1", 10), "append r0 r1"], [setup(2, "r1", 10), "append r1 r0"], ["tget r0 vec last"], ["tget r0 slicemut first_mut"],
                              ["drop r0"], ["unwind_drop r0"], ["bounds r0 vec shared unb unb"], [f"bounds r0 slicemut mut inc:0 exc:{n}"]):
                        groups.append(g)
                    if cl:
                        groups += [[f"{tv} r0 r1"] for tv in TO_VEC] + [[f"resize r0 {n + 2} 24"], [f"resize r0 0 24"], [setup(2, "r1", 10), "extend_from_slice r1 r0"], [setup(2, "r1", 10), "extend_refs r1 r0"], [f"refs r0 to_owned {max(n - 1, 0)}"]]
                    for g in groups:
                        out.append(Scenario(sh, base + g, "desync"))
    return out
