"""Decision procedure for the probe-based properties (C13, C14, C18, C20): the counterpart of decide.finish for
checks whose concrete cases are programs rather than operation scenarios."""
import collections, json, os, re, time
from .common import *
from . import probes


class ProbeFailure:
    def __init__(self, key, what, program, expect, observed, replay_kind="run", extra=None):
        self.key, self.what, self.program, self.expect, self.observed = key, what, program, expect, observed
        self.replay_kind = replay_kind   # run | compile | extract
        self.extra = extra or {}


def match_known_probe(f, findings, prop):
    for kf in findings.get("findings", []):
        if kf["property"] != prop: continue
        m = kf.get("match", {})
        if "key" not in m and "program" not in m: continue
        if "key" in m and not re.search(m["key"], f.key): continue
        if "program" in m and not re.search(m["program"], f.program or ""): continue
        if "scenario" in m or "line" in m or "shape" in m: continue
        return kf
    return None


def probe_replay(prop, f):
    return write_replay(prop, {"kind": "probe", "probe_kind": f.replay_kind, "key": f.key, "what": f.what, "program": f.program,
                               "expect": f.expect, "observed": f.observed, **f.extra})


def finish_probes(prop, tier, seed, t0, proof, failures, tie, cov, widen=None, assumptions=None, level="proof"):
    """failures: concrete failing cases (ProbeFailure); tie: model/translation disagreements without a concrete failing
    program [(what, detail)].  Prints KNOWN-FINDING / VIOLATION lines, writes evidence, returns the exit code."""
    findings = load_findings()
    unknown, known = [], {}
    for f in failures:
        kf = match_known_probe(f, findings, prop)
        if kf: known.setdefault(kf["id"], (kf, f, 0)); known[kf["id"]] = (kf, known[kf["id"]][1], known[kf["id"]][2] + 1)
        else: unknown.append(f)
    for kid, (kf, f, n) in sorted(known.items()):
        print(f"KNOWN-FINDING: property={prop} {kf['what']} [{kid}; {n} case(s) in this run, e.g. {f.key}: {f.what[:160]}]")
    rc, violations = 0, 0

    def report(fs):
        nonlocal violations
        by_key = collections.OrderedDict()
        # a program that runs and shows wrong behaviour is a better witness than one that stops compiling
        for f in sorted(fs, key=lambda f: 0 if f.replay_kind == "run" and ":compile:" not in f.key else 1): by_key.setdefault(f.key, f)
        for key, f in list(by_key.items())[:5]:
            replay = probe_replay(prop, f)
            print(f"VIOLATION property={prop} replay={replay}")
            log(f"  {f.key}: {f.what[:400]}")
            violations += 1

    if unknown:
        report(unknown); rc = 1
    proof_broken = proof is not None and not proof["ok"]
    if not unknown and (proof_broken or tie):
        found = []
        if widen is not None:
            log("proof obligation or correspondence broken; widening the failing-input search")
            for f in widen():
                if not match_known_probe(f, findings, prop): found.append(f)
        if found:
            report(found)
        else:
            payload = {"kind": "no-failing-input-found"}
            if proof_broken:
                payload["broken_proof_obligations"] = proof["failures"][:10]
                payload["modules"] = proof["modules"]
            if tie:
                payload["broken_correspondence"] = [{"what": w, "detail": d} for w, d in tie[:10]]
            replay = write_replay(prop, payload)
            print(f"VIOLATION property={prop} replay={replay} no-failing-input-found")
            if proof_broken: log(f"  broken proof obligations: {json.dumps(proof['failures'][:3])[:600]}")
            if tie: log(f"  broken correspondence: {tie[0][0]}: {str(tie[0][1])[:400]}")
            violations += 1
        rc = 1
    c = {}
    if proof is not None:
        c.update({
            "obligations": proof["obligations"], "discharged": proof["discharged"],
            "checker_cmd": "cd /verif/lean && lake build " + " ".join(proof["modules"]) + "  # then `#print axioms` of every property theorem (work/audit/%s.lean)" % prop,
            "trusted_base": [
                "Lean 4.33 kernel; axioms used: " + ", ".join(sorted({a for v in proof["axioms"].values() for a in v}) or ["none"]),
                "translator /verif/extract (runs the real generator functions of /repo and prints tables / rule texts)",
                "rustc as the judge of the probe programs; python generator and comparison"],
            "theorems": proof["theorems"], "proof_wall_s": proof.get("wall_s"),
        })
    c.update(cov)
    c["model_disagreements"] = len(tie)
    c["known_findings_reproduced"] = sorted(known.keys())
    evd = {"property_id": prop, "tier": tier, "seed": seed, "level": level, "coverage": c,
           "assumptions": assumptions or [], "wall_s": round(time.time() - t0, 1), "violations": violations}
    write_evidence(prop, evd)
    log(f"{prop}: rc={rc} evaluations={c.get('evaluations')} distinct={c.get('distinct_nontrivial')} "
        f"proof={'-' if proof is None else str(proof['discharged']) + '/' + str(proof['obligations'])} tie={len(tie)} "
        f"failures={len(failures)} known={sorted(known.keys())} wall={evd['wall_s']}s")
    return rc


def replay_probe(prop, r):
    """re-run a probe replay: the program must (still) behave as `expect` says"""
    kind = r.get("probe_kind", "run")
    name = f"replay_{prop}"
    if kind == "compile":
        ok, codes, err = probes.check_compile(name, r["program"], extra=r.get("rustc_args", []))
        obs = "compiles" if ok else "rejected " + ",".join(codes)
        bad = (r["expect"] == "compiles") != ok
    else:
        ok, out, err = probes.build_and_run(name, r["program"])
        bad = (not ok) or any(re.search(r.get("fail_pattern", r"\bFAIL\b"), l) for l in out.splitlines())
        obs = (out + err)[-600:]
    if bad:
        print(f"VIOLATION property={prop} replay={r.get('_path', '?')}")
        log(f"  still fails: expect {r['expect']}; observed {obs[:400]}")
        return 1
    log("replay no longer fails on the current tree")
    return 0


# ---------------------------------------------------------------------------------------------- C20

def run_zip_forms(forms, tag, batch=24):
    """compile and run the forms; returns (failures, tie, stats)"""
    from . import zipgen
    failures, tie = [], []
    nested = lambda f: any(x == "n" for x, _ in f.sels)
    # schedule: forms of one (container, nested) class share programs, so that a class that does not compile
    # costs one failed batch compile + individual compiles of that class only
    classes = collections.OrderedDict()
    for f in forms: classes.setdefault((f.container, nested(f)), []).append(f)
    batches = []
    for cl, fs in classes.items():
        for i in range(0, len(fs), batch): batches.append(fs[i:i + batch])

    def run_batch(ix_fs):
        ix, fs = ix_fs
        ok, out, err = probes.build_and_run(f"zip_{tag}_{ix}", zipgen.program(fs))
        return fs, ok, out, err

    results = probes.parallel(run_batch, list(enumerate(batches)))
    singles = []
    outputs = {}   # fid -> {len: (verdict, text)}
    wants = {}
    compiled = 0

    def absorb(out):
        for l in out.splitlines():
            w = l.split(" ", 4)
            if l.startswith("R "): outputs.setdefault(int(w[1]), {})[int(w[2])] = (w[3], w[4] if len(w) > 4 else "")
            elif l.startswith("W "): wants.setdefault(int(w[1]), {})[int(w[2])] = l.split(" ", 3)[3]

    for fs, ok, out, err in results:
        if ok:
            compiled += len(fs); absorb(out)
        elif len(fs) == 1:
            singles.append((fs[0], ok, out, err))
        else:
            singles.extend(probes.parallel(lambda f: (f,) + probes.build_and_run(f"zip_{tag}_s{f.fid}", zipgen.program([f])), fs))
    for f, ok, out, err in singles:
        if ok:
            compiled += 1; absorb(out); continue
        codes = sorted(set(re.findall(r"error\[(E\d+)\]", err))) or (["run-crash"] if "error" not in err else ["error"])
        c = zipgen.CONTAINERS[f.container]
        key = f"C20:compile:{c[0]}:{'nested' if nested(f) else 'flat'}:{'mut' if any(m for _, m in f.sels) else 'shared'}:{'+'.join(codes)}"
        first = next((l for l in err.splitlines() if l.startswith("error")), err[:200])
        failures.append(ProbeFailure(key, f"`{f.invocation()}` (container setup `{c[1]}`) does not compile: {first}",
                                     zipgen.program([f]), "compiles and yields the selected fields in lockstep", "rejected " + ",".join(codes)))
    # model comparison
    lines, index = [], []
    for f in forms:
        if f.fid not in outputs: continue
        for n in range(6):
            lines.append(f.model_line(n)); index.append((f, n))
    rc, mout, merr = run([MODEL_BIN, "zip"], input="\n".join(lines) + "\n", timeout=600)
    if rc != 0: raise BuildError(f"soa-model zip failed rc={rc}: {merr[-1000:]}")
    mlines = mout.splitlines()
    evaluations, nontrivial = 0, set()
    for (f, n), ml in zip(index, mlines):
        got = outputs[f.fid].get(n)
        evaluations += 1
        if n > 0: nontrivial.add((tuple(f.sels), f.container, tuple(f.exts), f.trailing, n))
        c = zipgen.CONTAINERS[f.container]
        if got is None:
            failures.append(ProbeFailure(f"C20:run:{c[0]}", f"`{f.invocation()}` produced no result for length {n}", zipgen.program([f]), "a result line", "none"))
            continue
        verdict, text = got
        if verdict != "OK":
            key = f"C20:yield:{c[0]}:{'nested' if nested(f) else 'flat'}:{'mut' if any(m for _, m in f.sels) else 'shared'}:ext{len(f.exts)}"
            failures.append(ProbeFailure(key, f"`{f.invocation()}` on {n} element(s): yielded/left `{text}` but the index loop over the field arrays gives `{wants.get(f.fid, {}).get(n, '?')}`",
                                         zipgen.program([f]), "tuples and writes equal to an index loop over the public field arrays", text))
        elif text.strip() != ml.strip():
            tie.append((f"model/implementation disagree on `{f.invocation()}` len={n}", {"implementation": text, "model": ml, "request": f.model_line(n)}))
    stats = {"forms": len(forms), "compiled": compiled, "evaluations": evaluations, "nontrivial": nontrivial,
             "programs": len(batches) + len(singles)}
    return failures, tie, stats


def check_C20(tier, seed):
    from . import zipgen
    t0 = time.time()
    proof = prove("C20", ["Soa.Props.C20"])
    n = 360 if tier == "quick" else 4000
    forms = zipgen.generate(n, seed)
    failures, tie, st = run_zip_forms(forms, "main")
    # the field arrays of the generated containers are public whatever the visibility of the struct's own fields: the macro
    # reaches them as `container.field` from wherever it is invoked (another module than the struct's), for vector, slice and
    # mutable slice; and one field may be selected more than once when read-only
    vis_prog = """#![allow(dead_code)]
#[macro_use] extern crate soa_derive;
mod bodies {
    use soa_derive::StructOfArray;
    #[derive(StructOfArray)]
    pub struct Body { mass: f64, pub(crate) charge: i32, pub name: u8 }
    pub fn make() -> BodyVec { let mut v = BodyVec::new(); for i in 0..4u8 { v.push(Body { mass: i as f64, charge: -(i as i32), name: i }); } v }
}
fn main() {
    let mut v = bodies::make();
    let mut got = vec![];
    for (m, c, n) in soa_zip!(&v, [mass, charge, name]) { got.push((*m, *c, *n)); }
    if got != vec![(0.0, 0, 0), (1.0, -1, 1), (2.0, -2, 2), (3.0, -3, 3)] { println!("FAIL zip-vis vector"); }
    for (m, c) in soa_zip!(&mut v, [mut mass, charge]) { *m += *c as f64; }
    let s = v.as_slice();
    let twice: Vec<(f64, f64)> = soa_zip!(&s, [mass, mass]).map(|(x, y)| (*x, *y)).collect();
    if twice != vec![(0.0, 0.0), (0.0, 0.0), (0.0, 0.0), (0.0, 0.0)] { println!("FAIL zip-vis slice / same field twice: {:?}", twice); }
    let mut sm = v.as_mut_slice();
    for (c,) in soa_zip!(&mut sm, [mut charge]).map(|c| (c,)) { *c = 7; }
    if v.charge != vec![7, 7, 7, 7] { println!("FAIL zip-vis mutable slice"); }
    println!("DONE zip-vis");
}
"""
    ok, out, err = probes.build_and_run("zip_visibility", vis_prog)
    st["evaluations"] += 1
    if not ok or "DONE" not in out:
        first = next((l for l in err.splitlines() if l.startswith("error")), err[:200])
        failures.append(ProbeFailure("C20:visibility:compile", f"soa_zip! over a struct with private / pub(crate) fields, invoked outside the struct's module, does not compile / run: {first}", vis_prog, "runs", "rejected"))
    for l in out.splitlines():
        if l.startswith("FAIL"):
            failures.append(ProbeFailure(f"C20:visibility:{l.split()[1]}", l[:300], vis_prog, "no FAIL line", l[:300]))

    def widen():
        fs, _, _ = run_zip_forms(zipgen.generate(1500, seed + 1), "widen")
        return fs
    hist_c = collections.Counter(zipgen.CONTAINERS[f.container][0] for f in forms)
    hist_a = collections.Counter(len(f.sels) for f in forms)
    hist_e = collections.Counter(len(f.exts) for f in forms)
    cov = {
        "evaluations": st["evaluations"], "distinct_nontrivial": len(st["nontrivial"]),
        "rule": "one evaluation = one soa_zip! invocation form (container expression kind x ordered field selection with mut mask x externals "
                "(kind, shorter/equal/longer) x trailing commas) compiled against /repo and run on one container length 0..5, compared with an "
                "index loop over the public field arrays (in the probe) and with the Lean model's output; distinct = distinct (form, length); non-trivial = length > 0",
        "samples": [f.desc() for f in forms[:3]] + [{"model_request": forms[0].model_line(3)}],
        "programs": st["programs"], "forms": st["forms"], "forms_compiled": st["compiled"],
        "traces_validated_against_impl": st["evaluations"],
        "containers_histogram": dict(hist_c), "arity_histogram": {str(k): v for k, v in sorted(hist_a.items())},
        "externals_histogram": {str(k): v for k, v in sorted(hist_e.items())},
        "mut_forms": sum(1 for f in forms if any(m for _, m in f.sels)), "nested_forms": sum(1 for f in forms if any(x == "n" for x, _ in f.sels)),
    }
    return finish_probes("C20", tier, seed, t0, proof, failures, tie, cov, widen=widen,
                         assumptions=["rustc macro hygiene for the repeated binder `a` of @flatten (modelled as one binder per expansion step)",
                                      "std Zip / slice::Iter / IterMut semantics (the model's zipChain and Src.items); validated by the probe runs"])


# ---------------------------------------------------------------------------------------------- C14

def expected_table_C14(case):
    """the truth table the property statement asks for (independent of the Lean model): requested traits on the vector and,
    unless vector-only, on the six other types; soa_attr on exactly its kind; the documented built-ins"""
    from . import derivegen as dg
    builtin = {"Vec": {"Default"}, "Slice": {"Default", "Copy", "Clone"}, "SliceMut": {"Default"}, "Ref": {"Copy", "Clone"},
               "RefMut": set(), "Ptr": {"Copy", "Clone"}, "PtrMut": {"Copy", "Clone"}}
    rows = []
    for k in dg.KINDS:
        have = set(builtin[k])
        for t in case.traits:
            if t == "Default": continue
            if k == "Vec" or t not in ("Clone", "Serialize", "Deserialize"): have.add(t)
        for kk, t in case.attrs:
            if kk == k: have.add(t)
        rows.append("".join("1" if t in have else "0" for t in dg.TABLE_TRAITS))
    return " ".join(rows) + f" clone_api={1 if 'Clone' in case.traits else 0}"


def run_derive_cases(cases, tag):
    from . import derivegen as dg
    failures, tie = [], []
    res = probes.parallel(lambda c: (c,) + probes.build_and_run(f"derive_{tag}_{c.cid}", c.program()), cases)
    rc, mout, merr = run([MODEL_BIN, "derive"], input="\n".join(c.model_line() for c in cases) + "\n", timeout=600)
    if rc != 0: raise BuildError(f"soa-model derive failed rc={rc}: {merr[-1000:]}")
    mlines = mout.splitlines()
    evaluations, distinct = 0, set()
    for (c, ok, out, err), ml in zip(res, mlines):
        prog = c.program()
        attrs = " ".join(c.directives_src()) or "(no soa attributes)"
        if not ok and "DONE" not in out:
            codes = sorted(set(re.findall(r"error\[(E\d+)\]", err))) or ["crash"]
            first = next((l for l in err.splitlines() if l.startswith("error")), err[:200])
            failures.append(ProbeFailure(f"C14:compile:{'+'.join(codes)}", f"{attrs}: the generated code does not compile / run: {first}", prog,
                                         "compiles; truth table as the property states", "rejected " + ",".join(codes)))
            continue
        evaluations += 1
        distinct.add((tuple(c.traits), tuple(c.attrs), c.nested, c.split))
        t = next((l for l in out.splitlines() if l.startswith("T ")), None)
        got = t.split(" ", 2)[2] if t else "(no table)"
        want = expected_table_C14(c)
        if got != want:
            # name the first differing cell
            cell = "?"
            for ki, (g, w) in enumerate(zip(got.split(" "), want.split(" "))):
                if g != w:
                    if g.startswith("clone_api"): cell = f"clone API: {g} (want {w})"
                    else:
                        ti = next(i for i, (x, y) in enumerate(zip(g, w)) if x != y)
                        cell = f"{dg.KINDS[ki]}: {dg.TABLE_TRAITS[ti]} is {'implemented' if g[ti] == '1' else 'NOT implemented'}"
                    break
            failures.append(ProbeFailure(f"C14:table:{cell.split(':')[0]}:{cell.split(': ')[1].split(' ')[0] if ': ' in cell else ''}",
                                         f"{attrs}: {cell}; table (Vec Slice SliceMut Ref RefMut Ptr PtrMut x {','.join(dg.TABLE_TRAITS)}) = {got}, the property asks for {want}",
                                         prog, want, got, extra={"fail_pattern": r"^(FAIL|T (?!\d+ " + re.escape(want) + r"$))"}))
        for l in out.splitlines():
            if l.startswith("FAIL"):
                failures.append(ProbeFailure(f"C14:behaviour:{l.split()[1]}", f"{attrs}: {l[:300]}", prog, "no FAIL line", l[:300]))
        if got != ml.strip():
            tie.append((f"model/implementation disagree on `{attrs}`", {"rustc": got, "model": ml, "request": c.model_line()}))
    return failures, tie, evaluations, distinct


def check_C14(tier, seed):
    from . import derivegen as dg
    t0 = time.time()
    proof = prove("C14", ["Soa.Props.C14"])
    cases = dg.cases(tier, seed)
    failures, tie, evaluations, distinct = run_derive_cases(cases, "main")
    # inherent cloning API: compiles iff Clone was requested
    api_sets = [[], ["Debug"], ["Clone"], ["Debug", "PartialEq", "Clone"], ["Default"], ["PartialEq", "Eq"],
                ["Serialize", "Deserialize"], ["Serialize"], ["Deserialize", "Debug"], ["Serialize", "Clone", "Deserialize"], ["Clone", "Debug"], ["Debug", "Clone", "Default"]]
    def api(ts):
        prog, expect = dg.clone_api_probe(ts)
        ok, codes, err = probes.check_compile("derive_api_" + "_".join(ts or ["none"]), prog)
        return ts, prog, expect, ok, codes
    for ts, prog, expect, ok, codes in probes.parallel(api, api_sets):
        evaluations += 1
        if ok != expect:
            failures.append(ProbeFailure(f"C14:cloneapi:{'present' if ok else 'absent'}", f"soa_derive({', '.join(ts)}): resize/to_vec "
                                         f"{'compile although Clone was not requested' if ok else 'do not compile although Clone was requested: ' + ','.join(codes)}",
                                         prog, "compiles" if expect else "rejected", "compiles" if ok else "rejected " + ",".join(codes), replay_kind="compile"))
    # serde round trip
    for nested in (False, True):
        prog = dg.serde_program(nested)
        ok, out, err = probes.build_and_run(f"derive_serde_{int(nested)}", prog)
        evaluations += 1
        if not ok or "DONE" not in out:
            first = next((l for l in err.splitlines() if l.startswith("error")), err[:200])
            failures.append(ProbeFailure("C14:serde:compile", f"serde probe (nested={nested}) does not compile / run: {first}", prog, "runs", "rejected"))
        for l in out.splitlines():
            if l.startswith("FAIL"):
                failures.append(ProbeFailure(f"C14:behaviour:{l.split()[1]}", l[:300], prog, "no FAIL line", l[:300]))

    # helper attributes of a requested derive and repeated attributes of one name, through soa_attr
    prog = dg.serde_attr_program()
    ok, out, err = probes.build_and_run("derive_serde_attr", prog)
    evaluations += 1
    if not ok or "DONE" not in out:
        first = next((l for l in err.splitlines() if l.startswith("error")), err[:200])
        failures.append(ProbeFailure("C14:attr:compile", f"soa_attr with helper attributes of a requested derive / repeated attributes does not compile / run: {first}", prog, "runs", "rejected"))
    for l in out.splitlines():
        if l.startswith("FAIL"):
            failures.append(ProbeFailure(f"C14:attr:{l.split()[1]}", l[:300], prog, "no FAIL line", l[:300]))

    # the cloning API on a struct that is not Clone itself
    prog = dg.noclone_program()
    ok, out, err = probes.build_and_run("derive_noclone", prog)
    evaluations += 1
    if not ok or "DONE" not in out:
        first = next((l for l in err.splitlines() if l.startswith("error")), err[:200])
        failures.append(ProbeFailure("C14:noclone:compile", f"soa_derive(Clone) on a struct that is not Clone itself: the vector's Clone / the cloning API does not compile / run: {first}", prog, "runs", "rejected"))
    for l in out.splitlines():
        if l.startswith("FAIL"):
            failures.append(ProbeFailure(f"C14:noclone:{l.split()[2]}", l[:300], prog, "no FAIL line", l[:300]))
    # a derive addressed to the reference type alone is what the natural-order sort needs (nested fields included)
    prog = dg.ref_ord_program()
    ok, out, err = probes.build_and_run("derive_ref_ord", prog)
    evaluations += 1
    if not ok or "DONE" not in out:
        first = next((l for l in err.splitlines() if l.startswith("error")), err[:200])
        failures.append(ProbeFailure("C14:reford:compile", f"soa_attr(Ref, derive(.. Ord)) + sort() of the mutable slice (flat and through a nested field) does not compile / run: {first}", prog, "runs", "rejected"))
    for l in out.splitlines():
        if l.startswith("FAIL"):
            failures.append(ProbeFailure(f"C14:reford:{l.split()[1]}", l[:300], prog, "no FAIL line", l[:300]))

    def widen():
        fs, _, _, _ = run_derive_cases(dg.cases("thorough", seed + 1), "widen")
        return fs
    cov = {
        "evaluations": evaluations, "distinct_nontrivial": len([d for d in distinct if d[0] or d[1]]),
        "rule": "one evaluation = one probe program (an attribute list on a struct, with or without a nested field) compiled against /repo: the 7 x 9 "
                "truth table of implemented traits is computed by rustc (inherent-const shadowing) and compared with the table the property states "
                "and with the Lean model's; Default-emptiness, derived equality vs element-wise equality on 64 pairs, the cloning API and serde round trips run in the probe. "
                "distinct = distinct attribute lists; non-trivial = at least one trait or attribute requested",
        "samples": [c.desc() for c in cases[:3]] + [{"model_request": cases[1].model_line()}],
        "programs": evaluations, "extracted_table_rows": "see Soa/Extracted/Derive.lean (nDeriveCases), checked by C14.table_agrees in the kernel",
        "traces_validated_against_impl": evaluations, "exhaustive": False,
    }
    return finish_probes("C14", tier, seed, t0, proof, failures, tie, cov, widen=widen,
                         assumptions=["serde's own derive and serde_json are trusted (round trip observed, not proved)",
                                      "rustc decides which traits a type implements; #[derive(T)] implements T when it compiles"])


# ---------------------------------------------------------------------------------------------- C18

BORROWCK = {"E0499", "E0502", "E0505", "E0597", "E0382", "E0506", "E0716", "E0594", "E0596", "E0713", "E0503", "E0521", "error"}

def run_surface_corpus(tag):
    from . import surfacegen as sg
    sigs = sg.load_sigs()
    corpus, uncovered = sg.corpus(sigs)
    fixed = sg.fixed_probes()
    failures, tie = [], []
    # verdicts predicted by the calculus
    plist = corpus + [p for p, _ in fixed]
    req = [p.model_line for p in plist if p.model_line]
    rc, mout, merr = run([MODEL_BIN, "surface"], input="\n".join(req) + "\n", timeout=600)
    if rc != 0: raise BuildError(f"soa-model surface failed rc={rc}: {merr[-1000:]}")
    pred = {}
    it = iter(mout.splitlines())
    for p in plist:
        if p.model_line: pred[id(p)] = next(it)
    # rustc's verdicts, in chunks
    chunk = 40
    chunks = [plist[i:i + chunk] for i in range(0, len(plist), chunk)]
    def run_chunk(ix_ch):
        ix, ch = ix_ch
        per, stray = probes.check_functions(f"surface_{tag}_{ix}", sg.PRELUDE, [p.body for p in ch])
        return ch, per, stray
    verdicts = {}
    for ch, per, stray in probes.parallel(run_chunk, list(enumerate(chunks))):
        typeerr = [c for codes in per for c in codes if c not in BORROWCK] or stray
        if typeerr:
            # a type error hides the borrow checker's verdicts of the whole file: judge every probe of the chunk alone
            def alone(p):
                per1, stray1 = probes.check_functions(f"surface_{tag}_p{p.pid}_{p.kind}", sg.PRELUDE, [p.body])
                return p, per1[0] + [s.split(":")[0] for s in stray1]
            for p, codes in probes.parallel(alone, ch): verdicts[id(p)] = codes
        else:
            for p, codes in zip(ch, per): verdicts[id(p)] = codes
    expect_fixed = {id(p): e for p, e in fixed}
    counts = collections.Counter()
    for p in plist:
        codes = verdicts[id(p)]
        got = "accept" if not codes else "reject"
        counts[(p.kind, got)] += 1
        want = pred.get(id(p))
        if id(p) in expect_fixed:
            wantf = "accept" if expect_fixed[id(p)] else "reject"
            if want is not None and want != wantf:
                tie.append((f"calculus and corpus expectation disagree on `{p.what}`", {"calculus": want, "expected": wantf, "request": p.model_line}))
            want = wantf
        # what the property itself says, independently of the extracted table and the calculus: two live accesses one of
        # which is mutable are rejected, nothing outlives the container, a single use is legal (a mutable iterator's
        # next() hands out distinct elements and is the one exception to "twice")
        if p.sig is not None:
            k = sg.src_kind(p.sig)
            stated = None
            if p.kind == "single": stated = "accept"
            elif p.kind == "escape": stated = "reject"
            elif p.sig["out"] == "mutable" and k != "iterMut" and p.kind in ("twice", "then_len", "shared_across"): stated = "reject"
            if stated is not None:
                if want is not None and want != stated:
                    tie.append((f"calculus (from the extracted signature) and property disagree on `{p.what}`", {"calculus": want, "property": stated, "request": p.model_line}))
                want = stated
        nonbc = [c for c in codes if c not in BORROWCK]
        # "… is not Clone": the rejection IS the missing method / unsatisfied bound
        if p.what.endswith("is not Clone") and set(nonbc) <= {"E0599", "E0277"}: nonbc = []
        # "… needs unsafe": the rejection IS the unsafety check
        if p.what.endswith("needs unsafe") and set(codes) == {"E0133"}: nonbc = []
        if nonbc and want == "reject":
            # rejected, but not by the borrow checker: the probe itself is ill-typed (template out of date?)
            tie.append((f"probe `{p.what}` does not type-check ({','.join(sorted(set(nonbc)))}); no verdict", {"program": p.program()[-600:]}))
            continue
        if got != want:
            safety = (want == "reject")
            key = f"C18:{p.kind}:{'accepted-illegal' if safety else 'rejected-legal'}:{(p.sig or {}).get('name', p.what.split(':')[0])}"
            failures.append(ProbeFailure(key, f"{p.what}: rustc {got}s the program ({','.join(sorted(set(codes))) or 'no error'}), the "
                                         f"{'aliasing / lifetime discipline' if safety else 'legal counterpart'} requires it to be {want}ed",
                                         p.program(), "compiles" if want == "accept" else "rejected", got + (" " + ",".join(sorted(set(codes))) if codes else ""),
                                         replay_kind="compile"))
    for u in uncovered:
        tie.append((f"no probe template for generated function `{u}` (it returns access to elements)", {}))
    return failures, tie, len(plist), counts, plist


def run_auto_tables(tag):
    from . import surfacegen as sg
    failures, tie = [], []
    jobs = [(pl, nested) for pl in sg.PAYLOADS for nested in (False, True)]
    res = probes.parallel(lambda j: (j,) + probes.build_and_run(f"auto_{tag}_{j[0][0]}_{int(j[1])}", sg.auto_program(j[0], j[1])), jobs)
    rc, mout, merr = run([MODEL_BIN, "surface"], input="\n".join(f"auto {pl[3][0]} {pl[3][1]}" for pl, _ in jobs) + "\n", timeout=60)
    if rc != 0: raise BuildError(f"soa-model surface failed rc={rc}: {merr[-1000:]}")
    n = 0
    for ((pl, nested), ok, out, err), ml in zip(res, mout.splitlines()):
        prog = sg.auto_program(pl, nested)
        if not ok:
            first = next((l for l in err.splitlines() if l.startswith("error")), err[:200])
            failures.append(ProbeFailure(f"C18:auto:compile:{pl[0]}", f"auto-trait probe for payload {pl[1]} (nested={nested}) does not compile: {first}", prog, "runs", "rejected"))
            continue
        cells = ml.split(" ")
        mauto, mcopy = cells[:9], cells[9].split("=")[1]
        for i, k in enumerate(sg.K9):
            line = next((l for l in out.splitlines() if l.startswith(f"A {k} ")), None)
            if line is None:
                failures.append(ProbeFailure(f"C18:auto:missing:{k}", f"no row for {k}", prog, "a row", "none")); continue
            _, _, gen, std, cp = line.split()
            n += 1
            want = "00" if k in ("ptr", "ptrMut") else std   # pointer bundles are neither, whatever the std pointer says (also 00)
            if gen != want:
                failures.append(ProbeFailure(f"C18:auto:{k}:{'send' if gen[0] != want[0] else 'sync'}",
                                             f"payload {pl[1]} (nested={nested}): generated {k} type is Send/Sync={gen}, the std type it stands for gives {want}",
                                             prog, f"A {k} {want} {std}", line, extra={"fail_pattern": f"^A {k} (?!{want} )"}))
            cpw = "1" if k in sg.COPY else "0"
            if cp.split("=")[1] != cpw:
                failures.append(ProbeFailure(f"C18:copy:{k}", f"payload {pl[1]} (nested={nested}): generated {k} type Copy={cp.split('=')[1]}, expected {cpw}", prog,
                                             f"copy={cpw}", line, extra={"fail_pattern": f"^A {k} .* copy=(?!{cpw})"}))
            if gen != mauto[i] or cp.split("=")[1] != mcopy[i]:
                tie.append((f"model/rustc disagree on auto traits of {k} for payload {pl[1]} nested={nested}", {"rustc": line, "model": f"{mauto[i]} copy={mcopy[i]}"}))
    return failures, tie, n


def check_C18(tier, seed):
    t0 = time.time()
    proof = prove("C18", ["Soa.Props.C18"])
    failures, tie, nprobes, counts, plist = run_surface_corpus("main")
    f2, t2, ncells = run_auto_tables("main")
    failures += f2; tie += t2
    cov = {
        "evaluations": nprobes + ncells, "distinct_nontrivial": nprobes + ncells,
        "rule": "one evaluation = one probe program judged by rustc (aliasing / escape / move / variance programs generated from the extracted signature "
                "table: six patterns per access-returning generated function and source kind, plus fixed Copy/move/split/reborrow/mutation/variance probes), "
                "its verdict compared with the loan calculus' prediction; or one cell (generated type x payload kind x nesting) of the Send/Sync/Copy table computed "
                "by rustc, compared with rustc's verdict on the std type it stands for and with the model. All are distinct and non-trivial by construction.",
        "samples": [{"what": p.what, "calculus_request": p.model_line, "body": p.body} for p in plist[1:4]],
        "programs": nprobes + 8, "verdict_histogram": {f"{k}:{v}": n for (k, v), n in sorted(counts.items())},
        "traces_validated_against_impl": nprobes + ncells, "exhaustive": True,
        "explanation": "exhaustive over the extracted signature table and the fixed payload kinds, not over all programs: rustc's borrow checker and auto-trait solver are not modelled (partial)",
    }
    return finish_probes("C18", tier, seed, t0, proof, failures, tie, cov, widen=None,
                         assumptions=["rustc's borrow checker / auto-trait solver are the judge (not modelled); safe Rust without unsafe blocks is borrow-sound (rustc's guarantee)",
                                      "std's auto-trait, Copy and variance facts for Vec<T>, &[T], &mut [T], &T, &mut T, *const T, *mut T, slice::Iter, slice::IterMut (ctorAuto / ctorCopy / ctorCovariant*)"])


# ---------------------------------------------------------------------------------------------- C13

def compile_shapes(shapes, tag, batch=12):
    """compile the declarations under the strict lint header (several modules per crate; a crate that fails is split);
    returns {sid: (ok, codes, first error)}"""
    from . import shapegen as sg
    batches = [shapes[i:i + batch] for i in range(0, len(shapes), batch)]
    def run_batch(ix_b):
        ix, b = ix_b
        ok, codes, err = probes.check_compile(f"shape_{tag}_{ix}", sg.LINT_HEADER + "".join(s.module() for s in b), extra=["--crate-type", "lib"])
        return b, ok, codes, err
    res = {}
    singles = []
    for b, ok, codes, err in probes.parallel(run_batch, list(enumerate(batches))):
        if ok:
            for s in b: res[s.sid] = (True, [], "")
        else:
            singles += b
    def run_one(s):
        ok, codes, err = probes.check_compile(f"shape_{tag}_s{s.sid}", sg.LINT_HEADER + s.module(), extra=["--crate-type", "lib"])
        first = next((l for l in err.splitlines() if l.startswith("error")), err[:200])
        return s, ok, codes, first
    for s, ok, codes, first in probes.parallel(run_one, singles):
        res[s.sid] = (ok, codes, first)
    return res, len(batches) + len(singles)


def shape_failures(shapes, res):
    from . import shapegen as sg
    out = []
    for s in shapes:
        ok, codes, first = res[s.sid]
        if ok: continue
        feat = []
        if s.cls == "hygiene":
            fam = next((f for f in sorted(sg.extracted_families(), key=len, reverse=True) if s.note.startswith(f + "_")), None)
            feat.append("private:" + fam if fam else "name:" + s.note)
        else:
            if s.drop: feat.append("drop")
            if "Clone" in s.soa_derives: feat.append("cloneapi")
            if s.nested is not None: feat.append("nested")
            if s.cls == "corner": feat.append(re.sub(r"[^a-z0-9]+", "-", s.note.lower())[:40])
        key = f"C13:compile:{s.cls}:{'+'.join(feat) or 'plain'}:{'+'.join(codes) or 'lint'}"
        out.append(ProbeFailure(key, f"the derive on this declaration does not compile warning-free ({s.note or s.cls}): {first}\n{s.decl()[:400]}",
                                sg.LINT_HEADER + s.module(), "compiles", "rejected " + ",".join(codes), replay_kind="compile",
                                extra={"rustc_args": ["--crate-type", "lib"]}))
    return out


def check_C13(tier, seed):
    from . import shapegen as sg
    t0 = time.time()
    proof = prove("C13", ["Soa.Props.C13"])
    n = 150 if tier == "quick" else 1500
    shapes = sg.grammar(n, seed)
    hyg = sg.hygiene_corpus(100000)
    corner = sg.corner_corpus(200000)
    allshapes = shapes + hyg + corner
    res, nprog = compile_shapes(allshapes, "main")
    failures = shape_failures(allshapes, res)
    tie = []
    # rejection corpus: a diagnostic, and the one the derive documents
    def rej(r):
        name, decl, msg = r
        ok, codes, err = probes.check_compile("reject_" + name, sg.rejection_program(decl))
        return name, decl, msg, ok, err
    for name, decl, msg, ok, err in probes.parallel(rej, sg.REJECTIONS):
        prog = sg.rejection_program(decl)
        if ok:
            failures.append(ProbeFailure(f"C13:accepted-unsupported:{name}", f"unsupported input is accepted (code is generated): {decl}", prog, "rejected", "compiles", replay_kind="compile"))
        elif "proc-macro derive panicked" not in err and "only supports" not in err:
            failures.append(ProbeFailure(f"C13:no-diagnostic:{name}", f"unsupported input fails without the derive's diagnostic: {err[:300]}", prog, "rejected", "rejected " + err[:100], replay_kind="compile"))
        elif msg not in err:
            tie.append((f"rejection `{name}`: the diagnostic changed (expected a message containing `{msg}`)", {"stderr": err[:400]}))
    # API completeness
    ok, out, err = probes.build_and_run("api_complete", sg.API_PROGRAM)
    if not ok or "DONE api" not in out:
        first = next((l for l in err.splitlines() if l.startswith("error")), err[:200])
        failures.append(ProbeFailure("C13:api:" + ",".join(sorted(set(re.findall(r"error\[(E\d+)\]", err)))[:3]), f"the documented API is not fully provided: {first}", sg.API_PROGRAM, "compiles and runs", first))

    def widen():
        more = sg.grammar(1200, seed + 1)
        r2, _ = compile_shapes(more, "widen")
        return shape_failures(more, r2)
    hist = collections.Counter()
    for s in allshapes: hist[f"{s.cls}:{'ok' if res[s.sid][0] else 'fail'}"] += 1
    nfields = collections.Counter(len(s.fields) for s in shapes)
    cov = {
        "evaluations": len(allshapes) + len(sg.REJECTIONS) + 1, "distinct_nontrivial": len({s.decl() for s in allshapes}) + len(sg.REJECTIONS) + 1,
        "rule": "one evaluation = one declaration compiled against /repo under the lint header of example/lib.rs (deny(warnings) + 20 named lints), as a module of a lib crate: "
                "shape grammar sampled by seed (1..12 fields, 23 field types incl. non-Clone/non-Debug/zero-sized/arrays/tuples/std generics/fn pointers/trait objects, names from plain, "
                "raw-identifier, method-name pools and EVERY fixed local identifier extracted from the generated code, three visibilities per struct and field, derive/soa_derive/soa_attr sets, "
                "nested fields, Drop), a hygiene corpus (one struct per reserved identifier incl. every private binder family x index), a corner corpus, 13 rejected declarations, and an API program. "
                "distinct = distinct declaration texts",
        "samples": [s.desc() for s in shapes[:2]] + [hyg[0].desc()],
        "programs": nprog + len(sg.REJECTIONS) + 1, "class_histogram": dict(hist), "field_count_histogram": {str(k): v for k, v in sorted(nfields.items())},
        "name_pool_size": len(sg.extracted_locals()), "traces_validated_against_impl": len(allshapes),
        "explanation": "the compile-and-lint verdicts are rustc's; they are supporting evidence, not proof (partial)",
    }
    return finish_probes("C13", tier, seed, t0, proof, failures, tie, cov, widen=widen,
                         assumptions=["rustc's type checker and lints are not modelled: warning-free compilation is observed on the sampled declarations only",
                                      "the binder-event extraction (syn visitor in /verif/extract) lists every let / closure / match / for binder and every single-identifier path use of a generated function",
                                      "hygiene theorems are about the three-field schematic struct; uniformity of the generator in the number of fields is assumed (and sampled by the probes)"])
